(* Proofs/NumTraits.v — Model/NumTraits.v = Spec, for all digit widths w > 0, all digit counts n,
   all well-formed operands.  Facts about the inherent models come in as the premises of
   Proofs/NumTraitsDeps.v. *)
From Bnum Require Import Base Prim.
From Bnum.Model Require Import Digit Core Shift AddSub Mul Div Bits Pow NumTraits.
From Bnum.Proofs Require Import NumTraitsZ NumTraitsDeps.
From Coq Require Import Znumtheory.

(* ================= small facts about Core proved here ================= *)

Lemma uval_repeat0 w k : uval w (repeat 0 k) = 0.
Proof. induction k as [|k IH]; cbn [repeat uval]; [reflexivity|]. rewrite IH. lia. Qed.

Lemma wf_repeat0 w k : 0 <= w -> wf w k (repeat 0 k).
Proof.
  intros Hw. split; [apply repeat_length|]. apply Forall_forall. intros x Hx.
  apply repeat_spec in Hx. subst x. unfold digit_ok. pose proof (B_pos w Hw). lia.
Qed.

Lemma uval_ZERO w n : uval w (ZERO n) = 0.
Proof. apply uval_repeat0. Qed.
Lemma wf_ZERO w n : 0 <= w -> wf w n (ZERO n).
Proof. apply wf_repeat0. Qed.

Lemma uval_from_digit w n d : (0 < n)%nat -> uval w (from_digit n d) = d.
Proof.
  intros Hn. destruct n as [|k]; [lia|]. cbn [from_digit uval]. rewrite uval_repeat0. lia.
Qed.
Lemma wf_from_digit w n d : 0 <= w -> digit_ok w d -> wf w n (from_digit n d).
Proof.
  intros Hw Hd. destruct n as [|k]; [apply wf_nil|]. cbn [from_digit].
  apply wf_cons. split; [exact Hd|apply wf_repeat0; exact Hw].
Qed.
Lemma uval_ONE w n : (0 < n)%nat -> uval w (ONE n) = 1.
Proof. apply uval_from_digit. Qed.
Lemma wf_ONE w n : 0 < w -> wf w n (ONE n).
Proof.
  intros Hw. apply wf_from_digit; [lia|]. unfold digit_ok. pose proof (B_ge_2 w Hw). lia.
Qed.

Lemma is_zero_spec w n a : 0 <= w -> wf w n a -> is_zero a = (uval w a =? 0).
Proof.
  intros Hw. revert a. induction n as [|n IH]; intros a Ha.
  - apply wf_inv_0 in Ha. subst a. reflexivity.
  - destruct (wf_inv_S _ _ _ Ha) as (d & r & -> & Hd & Hr).
    cbn [is_zero uval]. pose proof (uval_bounds w n r Hw Hr) as Hb. pose proof (B_pos w Hw) as HB.
    unfold digit_ok in Hd. rewrite (IH r Hr).
    destruct (Z.eqb_spec d 0) as [->|Hd0].
    + destruct (Z.eqb_spec (uval w r) 0) as [->|Hr0]; symmetry; apply Z.eqb_eq || apply Z.eqb_neq; nia.
    + symmetry. apply Z.eqb_neq. nia.
Qed.

Lemma is_zero_true w n a : 0 <= w -> wf w n a -> is_zero a = true <-> uval w a = 0.
Proof. intros Hw Ha. rewrite (is_zero_spec w n a Hw Ha). apply Z.eqb_eq. Qed.
Lemma is_zero_false w n a : 0 <= w -> wf w n a -> is_zero a = false <-> uval w a <> 0.
Proof. intros Hw Ha. rewrite (is_zero_spec w n a Hw Ha). apply Z.eqb_neq. Qed.

(* signed reading of small / large patterns *)
Lemma Mod_half_pos w n : 0 < w -> (0 < n)%nat -> 0 < Mod w n / 2.
Proof.
  intros Hw Hn. pose proof (Mod_even w n Hw Hn). pose proof (Mod_pos w n ltac:(lia)). lia.
Qed.

Lemma sval_of_small w n a : 0 < w -> (0 < n)%nat -> wf w n a -> uval w a < Mod w n / 2 -> sval w a = uval w a.
Proof.
  intros Hw Hn Ha Hs. unfold sval, to_signed. rewrite (wf_length _ _ _ Ha).
  destruct (Z.ltb_spec (uval w a) (Mod w n / 2)); lia.
Qed.

Lemma sval_nonneg_uval w n a : 0 < w -> (0 < n)%nat -> wf w n a -> 0 <= sval w a -> uval w a = sval w a /\ uval w a < Mod w n / 2.
Proof.
  intros Hw Hn Ha Hs. pose proof (uval_bounds w n a ltac:(lia) Ha) as Hb.
  pose proof (Mod_even w n Hw Hn) as He.
  unfold sval, to_signed in *. rewrite (wf_length _ _ _ Ha) in *.
  destruct (Z.ltb_spec (uval w a) (Mod w n / 2)); lia.
Qed.

Lemma sval_neg_uval w n a : 0 < w -> (0 < n)%nat -> wf w n a -> sval w a < 0 -> uval w a = sval w a + Mod w n.
Proof.
  intros Hw Hn Ha Hs. pose proof (uval_bounds w n a ltac:(lia) Ha) as Hb.
  unfold sval, to_signed in *. rewrite (wf_length _ _ _ Ha) in *.
  destruct (Z.ltb_spec (uval w a) (Mod w n / 2)); lia.
Qed.

Lemma sval_ONE w n : 0 < w -> (0 < n)%nat -> 1 < Mod w n / 2 -> sval w (ONE n) = 1.
Proof.
  intros Hw Hn H1. rewrite (sval_of_small w n); [apply uval_ONE; exact Hn|exact Hw|exact Hn|apply wf_ONE; exact Hw|].
  rewrite uval_ONE by exact Hn. exact H1.
Qed.

(* ================= Integer for BUint: div_floor / mod_floor / div_rem ================= *)

Section UDiv.
  Context (D : deps_udiv).

  Lemma U_div_ok w n a b : 0 < w -> wf w n a -> wf w n b -> uval w b <> 0 ->
    exists q, U_div w a b = Ret q /\ wf w n q /\ uval w q = uval w a / uval w b.
  Proof.
    intros Hw Ha Hb Hb0. unfold U_div, U_wrapping_div, U_checked_div.
    rewrite (proj2 (is_zero_false w n b ltac:(lia) Hb) Hb0). cbn [option_expect].
    destruct (du_divrem D w n a b Hw Ha Hb Hb0) as (H1 & _ & H3 & _).
    eexists. split; [reflexivity|]. split; assumption.
  Qed.

  Lemma U_rem_ok w n a b : 0 < w -> wf w n a -> wf w n b -> uval w b <> 0 ->
    exists r, U_rem w a b = Ret r /\ wf w n r /\ uval w r = uval w a mod uval w b.
  Proof.
    intros Hw Ha Hb Hb0. unfold U_rem, U_wrapping_rem, U_checked_rem.
    rewrite (proj2 (is_zero_false w n b ltac:(lia) Hb) Hb0). cbn [option_expect].
    destruct (du_divrem D w n a b Hw Ha Hb Hb0) as (_ & H2 & _ & H4).
    eexists. split; [reflexivity|]. split; assumption.
  Qed.

  (* unsigned: floor = truncation; a zero divisor panics *)
  Theorem TU_floor_ok w n a b : 0 < w -> wf w n a -> wf w n b -> uval w b <> 0 ->
    (exists q, TU_div_floor w a b = Ret q /\ wf w n q /\ uval w q = uval w a / uval w b) /\
    (exists r, TU_mod_floor w a b = Ret r /\ wf w n r /\ uval w r = uval w a mod uval w b) /\
    (exists q r, TU_div_rem w a b = Ret (q, r) /\ wf w n q /\ wf w n r /\
                 uval w q = Z.quot (uval w a) (uval w b) /\ uval w r = Z.rem (uval w a) (uval w b)) /\
    TU_is_multiple_of w a b = Ret (uval w a mod uval w b =? 0).
  Proof.
    intros Hw Ha Hb Hb0.
    pose proof (uval_bounds w n a ltac:(lia) Ha) as Hba. pose proof (uval_bounds w n b ltac:(lia) Hb) as Hbb.
    split; [|split; [|split]].
    - apply U_div_ok; assumption.
    - apply U_rem_ok; assumption.
    - unfold TU_div_rem, U_div_rem. rewrite (proj2 (is_zero_false w n b ltac:(lia) Hb) Hb0).
      destruct (du_divrem D w n a b Hw Ha Hb Hb0) as (H1 & H2 & H3 & H4).
      destruct (U_div_rem_unchecked w a b) as [q r] eqn:E. cbn [fst snd] in *.
      exists q, r. split; [reflexivity|]. split; [exact H1|]. split; [exact H2|].
      rewrite Z.quot_div_nonneg, Z.rem_mod_nonneg by lia. split; assumption.
    - unfold TU_is_multiple_of, TU_mod_floor.
      destruct (U_rem_ok w n a b Hw Ha Hb Hb0) as (r & Hr & Hwr & Hvr). rewrite Hr. cbn [omap].
      rewrite (is_zero_spec w n r ltac:(lia) Hwr), Hvr. reflexivity.
  Qed.

  Theorem TU_floor_panic w n a b : 0 < w -> wf w n a -> wf w n b -> uval w b = 0 ->
    TU_div_floor w a b = Panic /\ TU_mod_floor w a b = Panic /\ TU_div_rem w a b = Panic /\
    TU_is_multiple_of w a b = Panic.
  Proof.
    intros Hw Ha Hb Hb0.
    pose proof (proj2 (is_zero_true w n b ltac:(lia) Hb) Hb0) as Hz.
    unfold TU_is_multiple_of, TU_div_floor, TU_mod_floor, TU_div_rem, U_div, U_rem, U_wrapping_div, U_wrapping_rem,
      U_checked_div, U_checked_rem, U_div_rem. rewrite Hz. cbn. auto.
  Qed.
End UDiv.

(* ================= Integer for BInt: div_floor / mod_floor / div_rem ================= *)

Section IFloor.
  Context (D : deps_floor).

  Lemma sign_mismatch_spec w n r b : 0 < w -> (0 < n)%nat -> wf w n r -> wf w n b ->
    sign_mismatch w r b = ((0 <? sval w r) && (sval w b <? 0)) || ((sval w r <? 0) && (0 <? sval w b)).
  Proof.
    intros Hw Hn Hr Hb. unfold sign_mismatch.
    rewrite (df_pos D w n r Hw Hn Hr), (df_neg D w n b Hw Hn Hb), (df_neg D w n r Hw Hn Hr), (df_pos D w n b Hw Hn Hb).
    reflexivity.
  Qed.

  Theorem TI_floor_ok dbg w n a b : 0 < w -> (0 < n)%nat -> wf w n a -> wf w n b ->
    sval w b <> 0 -> ~ (sval w a = - (Mod w n / 2) /\ sval w b = -1) ->
    (exists q, TI_div_floor dbg w a b = Ret q /\ wf w n q /\ sval w q = sval w a / sval w b) /\
    (exists r, TI_mod_floor dbg w a b = Ret r /\ wf w n r /\ sval w r = sval w a mod sval w b) /\
    (exists q r, TI_div_rem dbg w a b = Ret (q, r) /\ wf w n q /\ wf w n r /\
                 sval w q = Z.quot (sval w a) (sval w b) /\ sval w r = Z.rem (sval w a) (sval w b)) /\
    TI_is_multiple_of dbg w a b = Ret (sval w a mod sval w b =? 0).
  Proof.
    intros Hw Hn Ha Hb Hb0 Hmin.
    pose proof (sval_range w n a Hw Hn Ha) as Hra. pose proof (sval_range w n b Hw Hn Hb) as Hrb.
    pose proof (Mod_half_pos w n Hw Hn) as HH.
    set (H := Mod w n / 2) in *.
    assert (Hc : (sval w b =? 0) || ((sval w a =? - H) && (sval w b =? -1)) = false).
    { apply orb_false_iff. split; [apply Z.eqb_neq; exact Hb0|].
      apply andb_false_iff. destruct (Z.eqb_spec (sval w a) (- H)); [right|left; reflexivity].
      apply Z.eqb_neq. intros E. apply Hmin. split; assumption. }
    pose proof (df_div D dbg w n a b Hw Hn Ha Hb) as Hd. fold H in Hd. rewrite Hc in Hd.
    pose proof (df_rem D dbg w n a b Hw Hn Ha Hb) as Hr. fold H in Hr. rewrite Hc in Hr.
    destruct Hd as (q & Eq & Wq & Vq). destruct Hr as (r & Er & Wr & Vr).
    pose proof (floor_of_trunc (sval w a) (sval w b) Hb0) as Hft.
    pose proof (floor_div_range H (sval w a) (sval w b) HH Hra Hrb Hb0 Hmin) as Hfr.
    pose proof (floor_mod_range H (sval w a) (sval w b) Hrb Hb0) as Hmr.
    pose proof (sign_mismatch_spec w n r b Hw Hn Wr Hb) as Hsm. rewrite Vr in Hsm.
    (* in the adjusting branch the type has at least 3 bits of range, so ONE reads as 1 *)
    assert (Hone : sign_mismatch w r b = true -> sval w (ONE n) = 1).
    { intros Et. apply sval_ONE; try assumption. fold H.
      rewrite Hsm in Et. pose proof (Z.rem_bound_abs (sval w a) (sval w b) Hb0) as Habs.
      apply orb_true_iff in Et. destruct Et as [Et|Et]; apply andb_true_iff in Et; destruct Et as [E1 E2];
        apply Z.ltb_lt in E1; apply Z.ltb_lt in E2; lia. }
    split; [|split; [|split]].
    - unfold TI_div_floor. rewrite Eq, Er. cbn [obind].
      destruct (sign_mismatch w r b) eqn:Esm.
      + rewrite <- Hsm in Hft. destruct Hft as [Hf1 Hf2].
        specialize (Hone eq_refl).
        destruct (df_sub D dbg w n q (ONE n) Hw Hn Wq (wf_ONE w n Hw)) as (q' & Eq' & Wq' & Vq').
        { rewrite Hone, Vq. fold H. lia. }
        rewrite (wf_length _ _ _ Ha). exists q'. split; [exact Eq'|]. split; [exact Wq'|]. rewrite Vq', Hone, Vq. lia.
      + rewrite <- Hsm in Hft. destruct Hft as [Hf1 Hf2]. exists q. split; [reflexivity|]. split; [exact Wq|]. lia.
    - unfold TI_mod_floor. rewrite Er. cbn [obind].
      destruct (sign_mismatch w r b) eqn:Esm.
      + rewrite <- Hsm in Hft. destruct Hft as [Hf1 Hf2].
        destruct (df_add D dbg w n r b Hw Hn Wr Hb) as (r' & Er' & Wr' & Vr').
        { rewrite Vr. fold H. lia. }
        exists r'. split; [exact Er'|]. split; [exact Wr'|]. rewrite Vr', Vr. lia.
      + rewrite <- Hsm in Hft. destruct Hft as [Hf1 Hf2]. exists r. split; [reflexivity|]. split; [exact Wr|]. lia.
    - unfold TI_div_rem. rewrite Eq, Er. cbn [obind omap]. exists q, r. auto.
    - unfold TI_is_multiple_of, TI_mod_floor. rewrite Er. cbn [obind].
      destruct (sign_mismatch w r b) eqn:Esm.
      + rewrite <- Hsm in Hft. destruct Hft as [Hf1 Hf2].
        destruct (df_add D dbg w n r b Hw Hn Wr Hb) as (r' & Er' & Wr' & Vr').
        { rewrite Vr. fold H. lia. }
        rewrite Er'. cbn [omap]. rewrite (is_zero_spec w n r' ltac:(lia) Wr'). f_equal.
        pose proof (uval_bounds w n r' ltac:(lia) Wr') as Hbr'.
        assert (Hsv : sval w r' = sval w a mod sval w b) by lia.
        destruct (Z.eqb_spec (sval w a mod sval w b) 0) as [E0|E0].
        * apply Z.eqb_eq. rewrite <- Hsv in E0. destruct (sval_nonneg_uval w n r' Hw Hn Wr' ltac:(lia)). lia.
        * apply Z.eqb_neq. intros Eu. apply E0. rewrite <- Hsv.
          rewrite (sval_of_small w n r' Hw Hn Wr'); [exact Eu|]. fold H. lia.
      + rewrite <- Hsm in Hft. destruct Hft as [Hf1 Hf2]. cbn [omap].
        rewrite (is_zero_spec w n r ltac:(lia) Wr). f_equal.
        assert (Hsv : sval w r = sval w a mod sval w b) by lia.
        destruct (Z.eqb_spec (sval w a mod sval w b) 0) as [E0|E0].
        * apply Z.eqb_eq. rewrite <- Hsv in E0. destruct (sval_nonneg_uval w n r Hw Hn Wr ltac:(lia)). lia.
        * apply Z.eqb_neq. intros Eu. apply E0. rewrite <- Hsv.
          rewrite (sval_of_small w n r Hw Hn Wr); [exact Eu|]. fold H. lia.
  Qed.

  Theorem TI_floor_panic dbg w n a b : 0 < w -> (0 < n)%nat -> wf w n a -> wf w n b ->
    sval w b = 0 \/ (sval w a = - (Mod w n / 2) /\ sval w b = -1) ->
    TI_div_floor dbg w a b = Panic /\ TI_mod_floor dbg w a b = Panic /\ TI_div_rem dbg w a b = Panic /\
    TI_is_multiple_of dbg w a b = Panic.
  Proof.
    intros Hw Hn Ha Hb Hc.
    assert (Hc' : (sval w b =? 0) || ((sval w a =? - (Mod w n / 2)) && (sval w b =? -1)) = true).
    { destruct Hc as [E|[E1 E2]]; [rewrite E; reflexivity|]. rewrite E1, E2, Z.eqb_refl. cbn. apply orb_true_r. }
    pose proof (df_div D dbg w n a b Hw Hn Ha Hb) as Hd. rewrite Hc' in Hd.
    pose proof (df_rem D dbg w n a b Hw Hn Ha Hb) as Hr. rewrite Hc' in Hr.
    unfold TI_is_multiple_of, TI_div_floor, TI_mod_floor, TI_div_rem. rewrite Hd, Hr. cbn. auto.
  Qed.
End IFloor.

(* ================= gcd ================= *)

Lemma odd_pos x : 0 <= x -> Z.odd x = true -> 1 <= x.
Proof. intros H0 Ho. destruct (Z.eq_dec x 0) as [->|]; [discriminate Ho|lia]. Qed.

Section Gcd.
  Context (D : deps_gcd).

  Lemma gcd_loop_ok fuel dbg w n : 0 < w -> forall a b btz, wf w n a -> wf w n b ->
    Z.odd (uval w a) = true -> Z.odd (uval w b) = true ->
    uval w a * uval w b < 2 ^ Z.of_nat fuel -> 0 <= btz < bits w n ->
    Z.gcd (uval w a) (uval w b) * 2 ^ btz < Mod w n ->
    exists r, gcd_loop fuel dbg w a b btz = Some (Ret r) /\ wf w n r /\
              uval w r = Z.gcd (uval w a) (uval w b) * 2 ^ btz.
  Proof.
    intros Hw. induction fuel as [|f IH]; intros a b btz Ha Hb Hoa Hob Hprod Hbtz Hfit.
    - exfalso. change (2 ^ Z.of_nat 0) with 1 in Hprod.
      pose proof (uval_bounds w n a ltac:(lia) Ha). pose proof (uval_bounds w n b ltac:(lia) Hb).
      pose proof (odd_pos (uval w a) ltac:(lia) Hoa). pose proof (odd_pos (uval w b) ltac:(lia) Hob). nia.
    - (* the ordered case *)
      assert (Hord : forall a b, wf w n a -> wf w n b -> Z.odd (uval w a) = true -> Z.odd (uval w b) = true ->
                 uval w a * uval w b < 2 ^ Z.of_nat (S f) -> Z.gcd (uval w a) (uval w b) * 2 ^ btz < Mod w n ->
                 uval w b <= uval w a ->
                 exists r, match U_sub dbg w a b with
                           | Panic => Some Panic
                           | Ret a1 => if is_zero a1 then fret (shl_internal w b btz)
                                       else gcd_loop f dbg w (shr_pad_internal w false a1 (trailing_zeros w a1)) b btz
                           end = Some (Ret r) /\ wf w n r /\ uval w r = Z.gcd (uval w a) (uval w b) * 2 ^ btz).
      { clear a b Ha Hb Hoa Hob Hprod Hfit. intros a b Ha Hb Hoa Hob Hprod Hfit Hle.
        pose proof (uval_bounds w n a ltac:(lia) Ha) as Hba. pose proof (uval_bounds w n b ltac:(lia) Hb) as Hbb.
        pose proof (odd_pos (uval w a) ltac:(lia) Hoa) as Ha1. pose proof (odd_pos (uval w b) ltac:(lia) Hob) as Hb1.
        destruct (dg_sub D dbg w n a b Hw Ha Hb Hle) as (a1 & Ea1 & Wa1 & Va1). rewrite Ea1.
        rewrite (is_zero_spec w n a1 ltac:(lia) Wa1), Va1.
        destruct (Z.eqb_spec (uval w a - uval w b) 0) as [E0|E0].
        - assert (Eab : uval w a = uval w b) by lia.
          rewrite Eab, Z.gcd_diag, Z.abs_eq in * by lia.
          destruct (dg_shl D w n b btz Hw Hb Hbtz) as (Ws & Vs).
          eexists. split; [reflexivity|]. split; [exact Ws|]. rewrite Vs. apply Z.mod_small.
          assert (0 < 2 ^ btz) by (apply Z.pow_pos_nonneg; lia). nia.
        - destruct (dg_tz D w n a1 Hw Wa1 ltac:(lia)) as (Htz & m & Hm & Hmo).
          set (t := trailing_zeros w a1) in *.
          destruct (dg_shr D w n a1 t Hw Wa1 Htz) as (Wa2 & Va2).
          assert (Hpt : 0 < 2 ^ t) by (apply Z.pow_pos_nonneg; lia).
          assert (Va2' : uval w (shr_pad_internal w false a1 t) = m).
          { rewrite Va2, Hm, Z.mul_comm, Z.div_mul by lia. reflexivity. }
          rewrite Va1 in Hm.
          destruct (gcd_step (uval w a) (uval w b) t m Hoa Hob ltac:(lia) ltac:(lia) ltac:(lia) Hm Hmo) as (Hm0 & Hg & Hhalf).
          destruct (IH (shr_pad_internal w false a1 t) b btz Wa2 Hb) as (r & Er & Wr & Vr).
          + rewrite Va2'. exact Hmo.
          + exact Hob.
          + rewrite Va2'. rewrite Nat2Z.inj_succ, Z.pow_succ_r in Hprod by lia. lia.
          + exact Hbtz.
          + rewrite Va2', Hg. exact Hfit.
          + exists r. split; [exact Er|]. split; [exact Wr|]. rewrite Vr, Va2', Hg. reflexivity. }
      cbn [gcd_loop]. rewrite (dg_ucmp D w n a b Hw Ha Hb).
      destruct (Z.compare_spec (uval w a) (uval w b)) as [E|E|E]; cbn [cmp_lt].
      + apply Hord; auto; lia.
      + rewrite (Z.gcd_comm (uval w a)).
        apply (Hord b a Hb Ha Hob Hoa); [rewrite Z.mul_comm; exact Hprod | rewrite Z.gcd_comm; exact Hfit | lia].
      + apply Hord; auto; lia.
  Qed.

  (* gcd_ok: the fuel 2*BITS+2 suffices and the result denotes Z.gcd *)
  Theorem TU_gcd_ok dbg w n a b : 0 < w -> wf w n a -> wf w n b ->
    exists r, TU_gcd dbg w a b = Some (Ret r) /\ wf w n r /\ uval w r = Z.gcd (uval w a) (uval w b).
  Proof.
    intros Hw Ha Hb.
    pose proof (uval_bounds w n a ltac:(lia) Ha) as Hba. pose proof (uval_bounds w n b ltac:(lia) Hb) as Hbb.
    unfold TU_gcd. rewrite (is_zero_spec w n a ltac:(lia) Ha), (is_zero_spec w n b ltac:(lia) Hb).
    destruct (Z.eqb_spec (uval w a) 0) as [Ea|Ea].
    { exists b. split; [reflexivity|]. split; [exact Hb|]. rewrite Ea, Z.gcd_0_l, Z.abs_eq by lia. reflexivity. }
    destruct (Z.eqb_spec (uval w b) 0) as [Eb|Eb].
    { exists a. split; [reflexivity|]. split; [exact Ha|]. rewrite Eb, Z.gcd_0_r, Z.abs_eq by lia. reflexivity. }
    destruct (dg_tz D w n a Hw Ha Ea) as (Hi & x & Hx & Hxo).
    destruct (dg_tz D w n b Hw Hb Eb) as (Hj & y & Hy & Hyo).
    set (i := trailing_zeros w a) in *. set (j := trailing_zeros w b) in *.
    destruct (dg_shr D w n a i Hw Ha Hi) as (Wa1 & Va1).
    destruct (dg_shr D w n b j Hw Hb Hj) as (Wb1 & Vb1).
    assert (Hpi : 0 < 2 ^ i) by (apply Z.pow_pos_nonneg; lia).
    assert (Hpj : 0 < 2 ^ j) by (apply Z.pow_pos_nonneg; lia).
    assert (Va1' : uval w (shr_pad_internal w false a i) = x).
    { rewrite Va1, Hx, Z.mul_comm, Z.div_mul by lia. reflexivity. }
    assert (Vb1' : uval w (shr_pad_internal w false b j) = y).
    { rewrite Vb1, Hy, Z.mul_comm, Z.div_mul by lia. reflexivity. }
    assert (Hx0 : 0 < x) by nia. assert (Hy0 : 0 < y) by nia.
    assert (Hg : Z.gcd (uval w a) (uval w b) = 2 ^ Z.min i j * Z.gcd x y).
    { rewrite Hx, Hy. apply gcd_split_pow2; auto; lia. }
    assert (Hgle : Z.gcd (uval w a) (uval w b) <= uval w a).
    { apply Z.divide_pos_le; [lia|apply Z.gcd_divide_l]. }
    assert (Hbtz : (let '(_, b_tz) := if i <? j then (j, i) else (i, j) in b_tz) = Z.min i j).
    { destruct (Z.ltb_spec i j); lia. }
    assert (Hgoal : forall btz, btz = Z.min i j ->
              exists r, gcd_loop (gcd_fuel w (length a)) dbg w (shr_pad_internal w false a i)
                          (shr_pad_internal w false b j) btz = Some (Ret r) /\ wf w n r /\
                        uval w r = Z.gcd (uval w a) (uval w b)).
    { intros btz ->. rewrite (wf_length _ _ _ Ha).
      destruct (gcd_loop_ok (gcd_fuel w n) dbg w n Hw _ _ (Z.min i j) Wa1 Wb1) as (r & Er & Wr & Vr).
      - rewrite Va1'. exact Hxo.
      - rewrite Vb1'. exact Hyo.
      - rewrite Va1', Vb1'. unfold gcd_fuel. rewrite Z2Nat.id by (unfold bits; nia).
        assert (x < Mod w n) by nia. assert (y < Mod w n) by nia.
        assert (HMM : Mod w n * Mod w n = 2 ^ (2 * bits w n)).
        { unfold Mod, bits. rewrite <- Z.pow_add_r by nia. f_equal. lia. }
        assert (2 ^ (2 * bits w n) <= 2 ^ (2 * bits w n + 2)) by (apply Z.pow_le_mono_r; unfold bits; nia).
        nia.
      - lia.
      - rewrite Va1', Vb1', Z.mul_comm, <- Hg. lia.
      - exists r. split; [exact Er|]. split; [exact Wr|]. rewrite Vr, Va1', Vb1', Z.mul_comm, <- Hg. reflexivity. }
    destruct (i <? j); apply Hgoal; lia.
  Qed.
End Gcd.

(* ================= lcm (unsigned), gcd / lcm (signed) ================= *)

Lemma lcm_nonneg_formula a b : 0 <= a -> 0 <= b -> Z.gcd a b <> 0 -> a / Z.gcd a b * b = Z.lcm a b.
Proof.
  intros Ha Hb Hg. unfold Z.lcm.
  destruct (Z.gcd_divide_l a b) as [x Hx]. destruct (Z.gcd_divide_r a b) as [y Hy].
  pose proof (Z.gcd_nonneg a b) as Hg0.
  set (g := Z.gcd a b) in *. clearbody g.
  assert (Hx0 : 0 <= x) by nia. assert (Hy0 : 0 <= y) by nia.
  subst a b. rewrite !Z.div_mul by exact Hg.
  rewrite Z.abs_eq by nia. ring.
Qed.

Section Lcm.
  Context (DG : deps_gcd) (DU : deps_udiv) (DM : U_mul_spec).

  Theorem TU_lcm_ok dbg w n a b : 0 < w -> wf w n a -> wf w n b ->
    Z.lcm (uval w a) (uval w b) < Mod w n ->
    exists r, TU_lcm dbg w a b = Some (Ret r) /\ wf w n r /\ uval w r = Z.lcm (uval w a) (uval w b).
  Proof.
    intros Hw Ha Hb Hfit.
    pose proof (uval_bounds w n a ltac:(lia) Ha) as Hba. pose proof (uval_bounds w n b ltac:(lia) Hb) as Hbb.
    unfold TU_lcm. rewrite (is_zero_spec w n a ltac:(lia) Ha), (is_zero_spec w n b ltac:(lia) Hb).
    destruct (Z.eqb_spec (uval w a) 0) as [Ea|Ea].
    { cbn [orb]. rewrite (wf_length _ _ _ Ha). exists (ZERO n). split; [reflexivity|]. split; [apply wf_ZERO; lia|].
      rewrite uval_ZERO, Ea, Z.lcm_0_l. reflexivity. }
    destruct (Z.eqb_spec (uval w b) 0) as [Eb|Eb].
    { cbn [orb]. rewrite (wf_length _ _ _ Ha). exists (ZERO n). split; [reflexivity|]. split; [apply wf_ZERO; lia|].
      rewrite uval_ZERO, Eb, Z.lcm_0_r. reflexivity. }
    cbn [orb].
    destruct (TU_gcd_ok DG dbg w n a b Hw Ha Hb) as (g & Eg & Wg & Vg). rewrite Eg. cbn [fbind].
    assert (Hg0 : uval w g <> 0).
    { rewrite Vg. intros E. apply Z.gcd_eq_0_l in E. contradiction. }
    unfold TU_div_floor. destruct (U_div_ok DU w n a g Hw Ha Wg Hg0) as (q & Eq & Wq & Vq). rewrite Eq. cbn [obind].
    assert (Hl : uval w q * uval w b = Z.lcm (uval w a) (uval w b)).
    { rewrite Vq, Vg. apply lcm_nonneg_formula; lia. }
    destruct (DM dbg w n q b Hw Wq Hb ltac:(lia)) as (r & Er & Wr & Vr).
    unfold flift. rewrite Er. exists r. split; [reflexivity|]. split; [exact Wr|]. lia.
  Qed.
End Lcm.

Section SignedGcd.
  Context (DG : deps_gcd) (DS : deps_signed).

  (* the signed gcd is the non-negative gcd whenever that is representable (it is not for
     gcd(MIN, MIN) = gcd(MIN, 0) = 2^(BITS-1)) *)
  Theorem TI_gcd_ok dbg w n a b : 0 < w -> (0 < n)%nat -> wf w n a -> wf w n b ->
    Z.gcd (sval w a) (sval w b) < Mod w n / 2 ->
    exists r, TI_gcd dbg w a b = Some (Ret r) /\ wf w n r /\ sval w r = Z.gcd (sval w a) (sval w b).
  Proof.
    intros Hw Hn Ha Hb Hrep.
    destruct (ds_uabs DS w n a Hw Hn Ha) as (Wa' & Va'). destruct (ds_uabs DS w n b Hw Hn Hb) as (Wb' & Vb').
    unfold TI_gcd.
    destruct (TU_gcd_ok DG dbg w n _ _ Hw Wa' Wb') as (g & Eg & Wg & Vg). rewrite Eg. cbn [fbind].
    rewrite Va', Vb', Z.gcd_abs_l, Z.gcd_abs_r in Vg.
    pose proof (Z.gcd_nonneg (sval w a) (sval w b)) as Hg0.
    pose proof (Mod_half_pos w n Hw Hn) as HH.
    assert (Sg : sval w g = Z.gcd (sval w a) (sval w b)).
    { rewrite (sval_of_small w n g Hw Hn Wg); lia. }
    destruct (ds_abs DS dbg w n g Hw Hn Wg ltac:(lia)) as (r & Er & Wr & Vr).
    unfold flift. rewrite Er. exists r. split; [reflexivity|]. split; [exact Wr|]. rewrite Vr, Sg. apply Z.abs_eq. exact Hg0.
  Qed.
End SignedGcd.

Lemma sval_zero_iff w n a : 0 < w -> (0 < n)%nat -> wf w n a -> sval w a = 0 <-> uval w a = 0.
Proof.
  intros Hw Hn Ha. pose proof (uval_bounds w n a ltac:(lia) Ha) as Hb. pose proof (Mod_half_pos w n Hw Hn) as HH.
  pose proof (Mod_even w n Hw Hn) as He.
  unfold sval, to_signed. rewrite (wf_length _ _ _ Ha). destruct (Z.ltb_spec (uval w a) (Mod w n / 2)); lia.
Qed.

Lemma lcm_formula a b : Z.gcd a b <> 0 -> Z.abs (a / Z.gcd a b * b) = Z.lcm a b.
Proof.
  intros Hg. unfold Z.lcm.
  destruct (Z.gcd_divide_l a b) as [x Hx]. destruct (Z.gcd_divide_r a b) as [y Hy].
  set (g := Z.gcd a b) in *. clearbody g.
  subst a b. rewrite !Z.div_mul by exact Hg. f_equal. ring.
Qed.

Section SignedLcm.
  Context (DG : deps_gcd) (DS : deps_signed) (DF : deps_floor) (DM : I_mul_spec).

  Theorem TI_lcm_ok dbg w n a b : 0 < w -> (0 < n)%nat -> wf w n a -> wf w n b ->
    Z.lcm (sval w a) (sval w b) < Mod w n / 2 ->
    exists r, TI_lcm dbg w a b = Some (Ret r) /\ wf w n r /\ sval w r = Z.lcm (sval w a) (sval w b).
  Proof.
    intros Hw Hn Ha Hb Hfit.
    pose proof (Mod_half_pos w n Hw Hn) as HH.
    pose proof (sval_range w n a Hw Hn Ha) as Hra. pose proof (sval_range w n b Hw Hn Hb) as Hrb.
    unfold TI_lcm. rewrite (is_zero_spec w n a ltac:(lia) Ha), (is_zero_spec w n b ltac:(lia) Hb).
    assert (Hz : sval w (ZERO n) = 0).
    { rewrite (sval_of_small w n); try assumption; [apply uval_ZERO|apply wf_ZERO; lia|rewrite uval_ZERO; lia]. }
    destruct (Z.eqb_spec (uval w a) 0) as [Ea|Ea].
    { cbn [orb]. rewrite (wf_length _ _ _ Ha). exists (ZERO n). split; [reflexivity|]. split; [apply wf_ZERO; lia|].
      rewrite (proj2 (sval_zero_iff w n a Hw Hn Ha) Ea), Z.lcm_0_l. exact Hz. }
    destruct (Z.eqb_spec (uval w b) 0) as [Eb|Eb].
    { cbn [orb]. rewrite (wf_length _ _ _ Ha). exists (ZERO n). split; [reflexivity|]. split; [apply wf_ZERO; lia|].
      rewrite (proj2 (sval_zero_iff w n b Hw Hn Hb) Eb), Z.lcm_0_r. exact Hz. }
    cbn [orb].
    assert (Sa : sval w a <> 0) by (rewrite (sval_zero_iff w n a Hw Hn Ha); exact Ea).
    assert (Sb : sval w b <> 0) by (rewrite (sval_zero_iff w n b Hw Hn Hb); exact Eb).
    set (g0 := Z.gcd (sval w a) (sval w b)).
    assert (Hg0 : 0 < g0).
    { pose proof (Z.gcd_nonneg (sval w a) (sval w b)). unfold g0.
      destruct (Z.eq_dec (Z.gcd (sval w a) (sval w b)) 0) as [E|]; [apply Z.gcd_eq_0_l in E; contradiction|lia]. }
    pose proof (lcm_formula (sval w a) (sval w b) ltac:(fold g0; lia)) as Hlf. fold g0 in Hlf.
    (* the gcd divides the lcm, which is positive, so it is representable too *)
    assert (Hgl : g0 <= Z.lcm (sval w a) (sval w b)).
    { apply Z.divide_pos_le.
      - pose proof (Z.lcm_nonneg (sval w a) (sval w b)).
        destruct (Z.eq_dec (Z.lcm (sval w a) (sval w b)) 0) as [E|]; [|lia].
        apply Z.lcm_eq_0 in E. tauto.
      - apply Z.divide_trans with (sval w a); [apply Z.gcd_divide_l|apply Z.divide_lcm_l]. }
    destruct (TI_gcd_ok DG DS dbg w n a b Hw Hn Ha Hb ltac:(fold g0; lia)) as (g & Eg & Wg & Vg).
    fold g0 in Vg. rewrite Eg. cbn [fbind].
    destruct (TI_floor_ok DF dbg w n a g Hw Hn Ha Wg ltac:(lia) ltac:(lia)) as ((q & Eq & Wq & Vq) & _).
    rewrite Eq. cbn [obind]. rewrite Vg in Vq.
    destruct (DM dbg w n q b Hw Hn Wq Hb) as (p & Ep & Wp & Vp).
    { rewrite Vq. lia. }
    rewrite Ep. cbn [obind].
    destruct (ds_abs DS dbg w n p Hw Hn Wp) as (r & Er & Wr & Vr).
    { rewrite Vp, Vq. lia. }
    unfold flift. rewrite Er. exists r. split; [reflexivity|]. split; [exact Wr|].
    rewrite Vr, Vp, Vq. exact Hlf.
  Qed.
End SignedLcm.

(* ================= conversions used by the roots (modelled in Model/NumTraits.v) ================= *)

Lemma lor_disjoint out d s : 0 <= s -> 0 <= out < 2 ^ s -> 0 <= d -> Z.lor out (d * 2 ^ s) = out + d * 2 ^ s.
Proof.
  intros Hs Ho Hd.
  assert (Hland : Z.land out (d * 2 ^ s) = 0).
  { apply Z.bits_inj'. intros k Hk. rewrite Z.land_spec, Z.bits_0.
    destruct (Z_lt_le_dec k s) as [Hlt|Hge].
    - rewrite Z.mul_pow2_bits_low by lia. apply andb_false_r.
    - rewrite <- (Z.mod_small out (2 ^ s)) by lia. rewrite Z.mod_pow2_bits_high by lia. reflexivity. }
  rewrite <- Z.lxor_lor by exact Hland. symmetry. apply Z.add_nocarry_lxor. exact Hland.
Qed.

Lemma to_uint_loop_spec w : 0 < w -> forall (k : nat) ds i out,
  (Z.of_nat k + i) * w = 128 -> 0 <= i -> 0 <= out < 2 ^ (i * w) -> Forall (digit_ok w) ds ->
  to_uint_loop w 128 ds i out = (out + 2 ^ (i * w) * uval w (firstn k ds), skipn k ds).
Proof.
  intros Hw. induction k as [|k IH]; intros ds i out Hk Hi Ho Hds.
  - destruct ds as [|d r]; cbn [to_uint_loop firstn skipn uval].
    + f_equal. lia.
    + destruct (Z.leb_spec 128 (i * w)); [|lia]. f_equal. lia.
  - destruct ds as [|d r]; cbn [to_uint_loop firstn skipn uval].
    + f_equal. lia.
    + inversion Hds as [|x l Hd Hr]; subst. unfold digit_ok in Hd.
      destruct (Z.leb_spec 128 (i * w)); [nia|].
      assert (Hiw : 0 <= i * w) by nia.
      assert (Hp : 0 < 2 ^ (i * w)) by (apply Z.pow_pos_nonneg; lia).
      assert (Hsmall : d * 2 ^ (i * w) < 2 ^ 128).
      { assert (d * 2 ^ (i * w) < B w * 2 ^ (i * w)) by nia.
        assert (B w * 2 ^ (i * w) = 2 ^ (w + i * w)) by (unfold B; rewrite Z.pow_add_r by lia; reflexivity).
        assert (2 ^ (w + i * w) <= 2 ^ 128) by (apply Z.pow_le_mono_r; nia). lia. }
      rewrite Z.mod_small by nia.
      rewrite lor_disjoint by lia.
      rewrite (IH r (i + 1) (out + d * 2 ^ (i * w))); try lia; try assumption.
      * f_equal. replace ((i + 1) * w) with (i * w + w) by ring. rewrite Z.pow_add_r by lia. unfold B. ring.
      * replace ((i + 1) * w) with (i * w + w) by ring. rewrite Z.pow_add_r by lia. fold (B w). nia.
Qed.

Definition u128_width_ok (w : Z) : Prop := 128 < w \/ 128 mod w = 0.

Lemma is_zero_Forall w ds : 0 <= w -> Forall (digit_ok w) ds -> is_zero ds = (uval w ds =? 0).
Proof. intros Hw Hf. apply (is_zero_spec w (length ds)); [exact Hw|split; [reflexivity|exact Hf]]. Qed.

Theorem U_to_u128_spec w n a : 0 < w -> u128_width_ok w -> (0 < n)%nat -> wf w n a ->
  U_to_u128 w a = Ret (if uval w a <? 2 ^ 128 then Some (uval w a) else None).
Proof.
  intros Hw Hok Hn Ha. unfold U_to_u128.
  destruct (Z.ltb_spec 128 w) as [Hbig|Hsmall].
  - destruct n as [|n']; [lia|]. destruct (wf_inv_S _ _ _ Ha) as (d & r & -> & Hd & Hr).
    unfold digit_ok in Hd. cbn [uval].
    pose proof (uval_bounds w n' r ltac:(lia) Hr) as Hbr.
    assert (HB : 2 ^ 128 < B w) by (unfold B; apply Z.pow_lt_mono_r; lia).
    rewrite (is_zero_spec w n' r ltac:(lia) Hr).
    destruct (Z.eqb_spec d (d mod 2 ^ 128)) as [E|E]; cbn [negb].
    + assert (d < 2 ^ 128) by (rewrite E; apply Z.mod_pos_bound; lia).
      rewrite Z.mod_small by lia.
      destruct (Z.eqb_spec (uval w r) 0) as [E0|E0].
      * rewrite E0. replace (d + B w * 0) with d by lia. destruct (Z.ltb_spec d (2 ^ 128)); [reflexivity|lia].
      * destruct (Z.ltb_spec (d + B w * uval w r) (2 ^ 128)); [nia|reflexivity].
    + assert (2 ^ 128 <= d).
      { destruct (Z_lt_le_dec d (2 ^ 128)); [|assumption]. rewrite Z.mod_small in E by lia. contradiction. }
      destruct (Z.ltb_spec (d + B w * uval w r) (2 ^ 128)); [nia|reflexivity].
  - destruct Hok as [Hok|Hok]; [lia|].
    set (c := 128 / w).
    assert (Hc : c * w = 128).
    { unfold c. pose proof (Z.div_mod 128 w ltac:(lia)). lia. }
    assert (Hc0 : 0 < c) by nia.
    destruct Ha as [Hlen Hf].
    rewrite (to_uint_loop_spec w Hw (Z.to_nat c) a 0 0); [|rewrite Z2Nat.id by lia; lia|lia|rewrite Z.mul_0_l; cbn; lia|exact Hf].
    rewrite Z.mul_0_l, Z.pow_0_r, Z.add_0_l, Z.mul_1_l.
    set (k := Z.to_nat c).
    assert (Hsplit : uval w a = uval w (firstn k a) + Mod w (length (firstn k a)) * uval w (skipn k a)).
    { rewrite <- (firstn_skipn k a) at 1. apply uval_app. lia. }
    assert (Hf12 : Forall (digit_ok w) (firstn k a) /\ Forall (digit_ok w) (skipn k a)).
    { apply Forall_app. rewrite firstn_skipn. exact Hf. }
    destruct Hf12 as [Hf1 Hf2].
    pose proof (uval_bounds w (length (firstn k a)) (firstn k a) ltac:(lia) (conj eq_refl Hf1)) as Hb1.
    pose proof (uval_bounds w (length (skipn k a)) (skipn k a) ltac:(lia) (conj eq_refl Hf2)) as Hb2.
    assert (Hlk : (length (firstn k a) <= k)%nat) by apply firstn_le_length.
    assert (HMk : Mod w k = 2 ^ 128).
    { unfold Mod, k. rewrite Z2Nat.id by lia. f_equal. lia. }
    assert (Hmono : Mod w (length (firstn k a)) <= 2 ^ 128).
    { rewrite <- HMk. unfold Mod. apply Z.pow_le_mono_r; [lia|]. apply Z.mul_le_mono_nonneg_l; lia. }
    rewrite (is_zero_Forall w _ ltac:(lia) Hf2).
    destruct (Z.eqb_spec (uval w (skipn k a)) 0) as [E0|E0].
    + rewrite E0, Z.mul_0_r, Z.add_0_r in Hsplit. rewrite Hsplit.
      destruct (Z.ltb_spec (uval w (firstn k a)) (2 ^ 128)); [reflexivity|lia].
    + assert (Hfull : length (firstn k a) = k).
      { apply firstn_length_le. destruct (le_lt_dec k (length a)) as [|Hlt]; [assumption|].
        rewrite skipn_all2 in E0 by lia. cbn in E0. contradiction. }
      rewrite Hfull, HMk in Hsplit.
      destruct (Z.ltb_spec (uval w a) (2 ^ 128)); [nia|reflexivity].
Qed.

Lemma from_uint_loop_spec w : 0 < w -> forall cnt n v, 0 <= v < 2 ^ (w * Z.of_nat cnt) -> v < Mod w n ->
  exists r, from_uint_loop w cnt n v = Ret r /\ wf w n r /\ uval w r = v.
Proof.
  intros Hw. pose proof (B_pos w ltac:(lia)) as HB.
  induction cnt as [|c IH]; intros n v Hv Hfit; cbn [from_uint_loop].
  - rewrite Z.mul_0_r, Z.pow_0_r in Hv. exists (ZERO n). split; [reflexivity|]. split; [apply wf_ZERO; lia|].
    rewrite uval_ZERO. lia.
  - assert (Hdiv : 0 <= v / B w < 2 ^ (w * Z.of_nat c)).
    { rewrite Nat2Z.inj_succ in Hv. replace (w * Z.succ (Z.of_nat c)) with (w + w * Z.of_nat c) in Hv by lia.
      rewrite Z.pow_add_r in Hv by nia. fold (B w) in Hv.
      split; [apply Z.div_pos; lia|]. apply Z.div_lt_upper_bound; lia. }
    pose proof (Z.div_mod v (B w) ltac:(lia)) as Hdm. pose proof (Z.mod_pos_bound v (B w) HB) as Hmb.
    destruct n as [|n'].
    + rewrite Mod_0 in Hfit. assert (v = 0) by lia. subst v. rewrite Z.mod_0_l, Z.div_0_l by lia. cbn [Z.eqb].
      destruct (IH O 0) as (r & Er & Wr & Vr); [split; [lia|apply Z.pow_pos_nonneg; nia]|rewrite Mod_0; lia|].
      exists r. auto.
    + rewrite Mod_S in Hfit by lia.
      destruct (IH n' (v / B w) Hdiv) as (r & Er & Wr & Vr).
      { apply Z.div_lt_upper_bound; lia. }
      rewrite Er. cbn [omap]. exists (v mod B w :: r). split; [reflexivity|]. split.
      * apply wf_cons. split; [unfold digit_ok; lia|exact Wr].
      * cbn [uval]. rewrite Vr. lia.
Qed.

Lemma U_from_uint_spec w n ubits v : 0 < w -> 0 < ubits -> 0 <= v < 2 ^ ubits -> v < Mod w n ->
  exists r, U_from_uint w n ubits v = Ret r /\ wf w n r /\ uval w r = v.
Proof.
  intros Hw Hu Hv Hfit. unfold U_from_uint. apply from_uint_loop_spec; [exact Hw| |exact Hfit].
  split; [lia|]. rewrite Z2Nat.id by (apply Z.div_pos; lia).
  assert (ubits <= w * ((ubits + w - 1) / w)).
  { pose proof (Z.div_mod (ubits + w - 1) w ltac:(lia)). pose proof (Z.mod_pos_bound (ubits + w - 1) w Hw). lia. }
  assert (2 ^ ubits <= 2 ^ (w * ((ubits + w - 1) / w))) by (apply Z.pow_le_mono_r; lia). lia.
Qed.

(* check_zero_or_one!: returns early exactly on 0 and 1 *)
Lemma last_digit_index_from_zero ds : forall i idx, (1 <= i)%nat ->
  last_digit_index_from i ds idx = O -> idx = O /\ is_zero ds = true.
Proof.
  induction ds as [|d r IH]; intros i idx Hi H; cbn [last_digit_index_from is_zero] in *.
  - auto.
  - destruct (Z.eqb_spec d 0) as [->|Hd].
    + apply (IH (S i) idx); [lia|exact H].
    + destruct (IH (S i) i ltac:(lia) H) as [E _]. lia.
Qed.

Lemma check_zero_or_one_true w n a : 0 < w -> wf w n a -> check_zero_or_one a = true ->
  uval w a = 0 \/ uval w a = 1.
Proof.
  intros Hw Ha H. destruct a as [|d r]; [left; reflexivity|].
  unfold check_zero_or_one in H. destruct (Nat.eqb_spec (last_digit_index (d :: r)) 0) as [E|E]; [|discriminate].
  unfold last_digit_index in E. destruct (last_digit_index_from_zero r 1 0 ltac:(lia) E) as [_ Hz].
  destruct n as [|n']; [destruct Ha as [Hl _]; discriminate|].
  apply wf_cons in Ha. destruct Ha as [Hd Hr].
  rewrite (is_zero_true w n' r ltac:(lia) Hr) in Hz. cbn [uval]. rewrite Hz.
  apply orb_true_iff in H. destruct H as [H|H]; apply Z.eqb_eq in H; lia.
Qed.

(* ================= fixpoint ================= *)

Lemma U_shr_unfold dbg w n a s : wf w n a -> 0 <= s < bits w n ->
  U_shr dbg w a s = Ret (shr_pad_internal w false a s).
Proof.
  intros Ha Hs. unfold U_shr, U_strict_shr, U_checked_shr, U_wrapping_shr, U_overflowing_shr.
  rewrite (wf_length _ _ _ Ha). destruct (Z.leb_spec (bits w n) s); [lia|]. destruct dbg; reflexivity.
Qed.
Lemma U_shl_unfold dbg w n a s : wf w n a -> 0 <= s < bits w n ->
  U_shl dbg w a s = Ret (shl_internal w a s).
Proof.
  intros Ha Hs. unfold U_shl, U_strict_shl, U_checked_shl, U_wrapping_shl, U_overflowing_shl.
  rewrite (wf_length _ _ _ Ha). destruct (Z.leb_spec (bits w n) s); [lia|]. destruct dbg; reflexivity.
Qed.

(* f computes F on the well-formed arguments whose value lies in [lo, hi] *)
Definition closure_ok (w : Z) (n : nat) (f : list Z -> outcome (list Z)) (F : Z -> Z) (lo hi : Z) : Prop :=
  forall s, wf w n s -> lo <= uval w s <= hi ->
    exists s', f s = Ret s' /\ wf w n s' /\ uval w s' = F (uval w s).

Lemma fixpoint_ok (UC : ucmp_spec) depth w n guess max_bits f F R :
  0 < w -> wf w n guess -> 0 <= R -> R < uval w guess ->
  closure_ok w n f F R (uval w guess) ->
  (forall x, R <= x <= uval w guess -> R <= F x) ->
  (forall x, R < x <= uval w guess -> F x < x) ->
  uval w guess - R < 2 ^ Z.of_nat depth ->
  exists r, fixpoint depth w guess max_bits f = Some (Ret r) /\ wf w n r /\ uval w r = R.
Proof.
  intros Hw Wg HR0 HRG Hcl Hge Hlt Hdepth.
  set (G := uval w guess) in *.
  unfold fixpoint.
  destruct (Hcl guess Wg ltac:(lia)) as (xn & Exn & Wxn & Vxn). fold G in Vxn. rewrite Exn.
  pose proof (Hlt G ltac:(lia)) as HFG. pose proof (Hge G ltac:(lia)) as HFG'.
  (* the first loop does not iterate: f(guess) < guess *)
  rewrite (run_pow2_done (fixpoint_up_step w (length guess) max_bits f) depth (guess, xn) (Ret (guess, xn))).
  2:{ unfold fixpoint_up_step. rewrite (UC w n guess xn Hw Wg Wxn). fold G. rewrite Vxn.
      destruct (Z.compare_spec G (F G)); cbn [cmp_lt]; try reflexivity; lia. }
  (* the second loop *)
  pose (Inv := fun st : list Z * list Z =>
     wf w n (fst st) /\ wf w n (snd st) /\ R <= uval w (fst st) <= G /\ uval w (snd st) = F (uval w (fst st))).
  pose (m := fun st : list Z * list Z => uval w (fst st) - R).
  pose (P := fun res : outcome (list Z) => exists r, res = Ret r /\ wf w n r /\ uval w r = R).
  destruct (run_pow2_ends (fixpoint_down_step f) Inv m P) with (d := depth) (s := (guess, xn)) as (res & Eres & Pres).
  - intros [x x'] (Wx & Wx' & Hx & Vx') Hm. cbn [fst snd] in *. unfold fixpoint_down_step.
    rewrite (UC w n x x' Hw Wx Wx'), Vx'.
    destruct (Z.compare_spec (uval w x) (F (uval w x))) as [E|E|E]; cbn [cmp_gt].
    + (* x = F x : then x <= R *)
      unfold P. exists x. split; [reflexivity|]. split; [exact Wx|].
      destruct (Z_lt_le_dec R (uval w x)) as [Hgt|]; [|lia]. pose proof (Hlt (uval w x) ltac:(lia)). lia.
    + unfold P. exists x. split; [reflexivity|]. split; [exact Wx|].
      destruct (Z_lt_le_dec R (uval w x)) as [Hgt|]; [|lia]. pose proof (Hlt (uval w x) ltac:(lia)). lia.
    + pose proof (Hge (uval w x) ltac:(lia)) as Hge'.
      destruct (Hcl x' Wx' ltac:(lia)) as (x'' & Ex'' & Wx'' & Vx''). rewrite Ex''.
      unfold Inv, m. cbn [fst snd]. split; [split; [exact Wx'|split; [exact Wx''|split; [lia|exact Vx'']]]|lia].
  - unfold Inv. cbn [fst snd]. fold G. split; [exact Wg|split; [exact Wxn|split; [lia|exact Vxn]]].
  - unfold m. cbn [fst]. fold G. lia.
  - rewrite Eres. destruct Pres as (r & -> & Wr & Vr). exists r. auto.
Qed.

(* ================= Roots for BUint ================= *)

Lemma zroot_pos k A : 1 <= k -> 1 <= A -> 1 <= zroot k A.
Proof.
  intros Hk HA. destruct (zroot_spec k A Hk ltac:(lia)) as (H0 & H1 & H2).
  destruct (Z.eq_dec (zroot k A) 0) as [E|]; [|lia]. rewrite E in H2. rewrite Z.add_0_l, Z.pow_1_l in H2 by lia. lia.
Qed.

Section Roots.
  Context (D : deps_roots).

  Let DU : deps_udiv := {| du_divrem := dr_divrem D |}.

  (* common tail of sqrt / cbrt / nth_root above 2^128: the Newton iteration from 2^(bits/k+1) *)
  Lemma root_newton_ok w n a k f : 0 < w -> wf w n a -> 2 <= k -> 0 < uval w a -> k < bits_of w a ->
    closure_ok w n f (newton k (uval w a)) (zroot k (uval w a)) (2 ^ (bits_of w a / k + 1)) ->
    exists r, root_newton w a k f = Some (Ret r) /\ wf w n r /\ uval w r = zroot k (uval w a).
  Proof.
    intros Hw Ha Hk HA Hkb Hcl.
    destruct (dr_bits D w n a Hw Ha HA) as ((Hbl0 & HblN) & HA1 & HA2).
    set (A := uval w a) in *. set (bl := bits_of w a) in *.
    set (mb := bl / k + 1) in *.
    pose proof (Z.div_mod bl k ltac:(lia)) as Hdm. pose proof (Z.mod_pos_bound bl k ltac:(lia)) as Hmb.
    assert (Hq0 : 0 <= bl / k) by (apply Z.div_pos; lia).
    assert (Hmb1 : 1 <= mb < bits w n) by (unfold mb; nia).
    unfold root_newton. rewrite (wf_length _ _ _ Ha). fold bl. fold mb.
    destruct (dr_p2 D w n mb Hw ltac:(lia)) as (guess & Eg & Wg & Vg). rewrite Eg.
    destruct (zroot_spec k A ltac:(lia) ltac:(lia)) as (HR0 & HR1 & HR2).
    pose proof (zroot_pos k A ltac:(lia) ltac:(lia)) as HR.
    set (R := zroot k A) in *.
    assert (HGR : R < 2 ^ mb).
    { apply pow_lt_inv with k; [lia|lia|apply Z.pow_nonneg; lia|].
      rewrite <- Z.pow_mul_r by lia.
      assert (2 ^ bl <= 2 ^ (mb * k)) by (apply Z.pow_le_mono_r; unfold mb; nia). lia. }
    apply (fixpoint_ok (dr_ucmp D) (fixpoint_depth w n) w n guess mb f (newton k A) R Hw Wg HR0); rewrite ?Vg.
    - exact HGR.
    - exact Hcl.
    - intros x Hx. apply newton_ge_root; lia.
    - intros x Hx. apply newton_lt with R; lia.
    - unfold fixpoint_depth. rewrite Z2Nat.id by lia.
      assert (2 ^ mb <= 2 ^ (bits w n + 1)) by (apply Z.pow_le_mono_r; lia). lia.
  Qed.

  (* the primitive shortcut: below 2^128 the result is the primitive's (specified) root *)
  Lemma root_shortcut_ok w n a k slow : 0 < w -> u128_width_ok w -> (0 < n)%nat -> wf w n a -> 1 <= k ->
    (2 ^ 128 <= uval w a -> exists r, slow = Some (Ret r) /\ wf w n r /\ uval w r = zroot k (uval w a)) ->
    exists r, root_shortcut w a k slow = Some (Ret r) /\ wf w n r /\ uval w r = zroot k (uval w a).
  Proof.
    intros Hw Hok Hn Ha Hk Hslow. unfold root_shortcut.
    rewrite (U_to_u128_spec w n a Hw Hok Hn Ha).
    pose proof (uval_bounds w n a ltac:(lia) Ha) as Hb.
    destruct (Z.ltb_spec (uval w a) (2 ^ 128)) as [Hlt|Hge].
    - rewrite (wf_length _ _ _ Ha). unfold flift, U_from_u128.
      pose proof (zroot_le k (uval w a) Hk ltac:(lia)) as Hle.
      destruct (zroot_spec k (uval w a) Hk ltac:(lia)) as (H0 & _).
      destruct (U_from_uint_spec w n 128 (zroot k (uval w a)) Hw ltac:(lia) ltac:(lia) ltac:(lia)) as (r & Er & Wr & Vr).
      rewrite Er. exists r. auto.
    - apply Hslow. exact Hge.
  Qed.

  Lemma big_bits w n a : 0 < w -> wf w n a -> 2 ^ 128 <= uval w a ->
    128 < bits_of w a <= bits w n /\ 2 ^ (bits_of w a - 1) <= uval w a < 2 ^ bits_of w a.
  Proof.
    intros Hw Ha Hge. assert (H0 : 0 < uval w a) by (assert (0 < 2 ^ 128) by (apply Z.pow_pos_nonneg; lia); lia).
    destruct (dr_bits D w n a Hw Ha H0) as ((Hb0 & HbN) & H1 & H2).
    split; [|split; assumption]. split; [|exact HbN].
    destruct (Z_lt_le_dec 128 (bits_of w a)) as [|Hle]; [assumption|].
    assert (2 ^ bits_of w a <= 2 ^ 128) by (apply Z.pow_le_mono_r; lia). lia.
  Qed.

  Lemma Mod_as_pow w n : Mod w n = 2 ^ bits w n.
  Proof. reflexivity. Qed.

  (* ---- sqrt ---- *)
  Lemma sqrt_closure dbg w n a : 0 < w -> wf w n a -> 2 ^ 128 <= uval w a ->
    closure_ok w n (sqrt_step dbg w a) (newton 2 (uval w a)) (zroot 2 (uval w a)) (2 ^ (bits_of w a / 2 + 1)).
  Proof.
    intros Hw Ha Hge s Ws Hs.
    destruct (big_bits w n a Hw Ha Hge) as ((Hbl & HblN) & HA1 & HA2).
    set (A := uval w a) in *. set (bl := bits_of w a) in *.
    destruct (zroot_spec 2 A ltac:(lia) ltac:(lia)) as (HR0 & HR1 & HR2).
    pose proof (zroot_pos 2 A ltac:(lia) ltac:(lia)) as HR. set (R := zroot 2 A) in *.
    set (S := uval w s) in *.
    unfold sqrt_step.
    destruct (U_div_ok DU w n a s Hw Ha Ws ltac:(fold S; lia)) as (q & Eq & Wq & Vq). rewrite Eq. cbn [obind].
    fold A S in Vq.
    assert (HqS : S * (A / S) <= A < S * (A / S) + S).
    { pose proof (Z.div_mod A S ltac:(lia)). pose proof (Z.mod_pos_bound A S ltac:(lia)). lia. }
    assert (Hqb : A / S <= S + 2).
    { rewrite !Z.pow_2_r in *. nia. }
    (* 2^(bl/2+1) <= 2^(N-2) *)
    assert (HG : 4 * 2 ^ (bl / 2 + 1) <= Mod w n).
    { rewrite Mod_as_pow. change 4 with (2 ^ 2). rewrite <- Z.pow_add_r by (try lia; pose proof (Z.div_pos bl 2); lia).
      apply Z.pow_le_mono_r; [lia|]. pose proof (Z.div_mod bl 2 ltac:(lia)). pose proof (Z.mod_pos_bound bl 2 ltac:(lia)). lia. }
    assert (HG2 : 2 <= 2 ^ (bl / 2 + 1)).
    { change 2 with (2 ^ 1) at 1. apply Z.pow_le_mono_r; [lia|]. pose proof (Z.div_pos bl 2); lia. }
    destruct (dr_add D dbg w n s q Hw Ws Wq) as (t & Et & Wt & Vt).
    { rewrite Vq. fold S. lia. }
    rewrite Et. cbn [obind].
    assert (Hbits : 1 < bits w n) by lia.
    rewrite (U_shr_unfold dbg w n t 1 Wt ltac:(lia)).
    destruct (dr_shr D w n t 1 Hw Wt ltac:(lia)) as (Wr & Vr).
    eexists. split; [reflexivity|]. split; [exact Wr|].
    rewrite Vr, Vt, Vq. fold S. unfold newton. change (2 - 1) with 1. rewrite !Z.pow_1_r, Z.mul_1_l. reflexivity.
  Qed.

  Theorem TU_sqrt_ok dbg w n a : 0 < w -> u128_width_ok w -> (0 < n)%nat -> wf w n a ->
    exists r, TU_sqrt dbg w a = Some (Ret r) /\ wf w n r /\ uval w r = zroot 2 (uval w a).
  Proof.
    intros Hw Hok Hn Ha. unfold TU_sqrt.
    destruct (check_zero_or_one a) eqn:Ec.
    - exists a. split; [reflexivity|]. split; [exact Ha|].
      destruct (check_zero_or_one_true w n a Hw Ha Ec) as [E|E]; rewrite E; reflexivity.
    - apply root_shortcut_ok; try assumption; [lia|]. intros Hge.
      destruct (big_bits w n a Hw Ha Hge) as ((Hbl & HblN) & HA1 & HA2).
      assert (0 < 2 ^ 128) by (apply Z.pow_pos_nonneg; lia).
      apply root_newton_ok; [exact Hw|exact Ha|lia|lia|lia|apply sqrt_closure; assumption].
  Qed.

  (* ---- cbrt ---- *)
  Lemma cbrt_closure dbg w n a : 0 < w -> 3 < B w -> wf w n a -> 2 ^ 128 <= uval w a ->
    closure_ok w n (cbrt_step dbg w a) (newton 3 (uval w a)) (zroot 3 (uval w a)) (2 ^ (bits_of w a / 3 + 1)).
  Proof.
    intros Hw HB3 Ha Hge s Ws Hs.
    destruct (big_bits w n a Hw Ha Hge) as ((Hbl & HblN) & HA1 & HA2).
    set (A := uval w a) in *. set (bl := bits_of w a) in *.
    destruct (zroot_spec 3 A ltac:(lia) ltac:(lia)) as (HR0 & HR1 & HR2).
    pose proof (zroot_pos 3 A ltac:(lia) ltac:(lia)) as HR. set (R := zroot 3 A) in *.
    set (S := uval w s) in *.
    pose proof (Z.div_mod bl 3 ltac:(lia)) as Hdm3. pose proof (Z.mod_pos_bound bl 3 ltac:(lia)) as Hmb3.
    set (e := bl / 3 + 1) in *.
    assert (He : 1 <= e) by (unfold e; lia).
    set (G := 2 ^ e) in *.
    assert (HG2 : 2 <= G).
    { unfold G. change 2 with (2 ^ 1) at 1. apply Z.pow_le_mono_r; lia. }
    (* G^2 * 8 <= M *)
    assert (HGG : 8 * (G * G) <= Mod w n).
    { rewrite Mod_as_pow. unfold G. change 8 with (2 ^ 3). rewrite <- !Z.pow_add_r by lia.
      apply Z.pow_le_mono_r; [lia|]. unfold e. lia. }
    unfold cbrt_step.
    destruct (dr_mul D dbg w n s s Hw Ws Ws) as (ss & Ess & Wss & Vss).
    { fold S. nia. }
    rewrite Ess. cbn [obind]. fold S in Vss.
    destruct (U_div_ok DU w n a ss Hw Ha Wss ltac:(rewrite Vss; nia)) as (q & Eq & Wq & Vq). rewrite Eq. cbn [obind].
    fold A in Vq. rewrite Vss in Vq.
    assert (Hbits : 1 < bits w n) by lia.
    rewrite (U_shl_unfold dbg w n s 1 Ws ltac:(lia)). cbn [obind].
    destruct (dr_shl D w n s 1 Hw Ws ltac:(lia)) as (Ws2 & Vs2).
    fold S in Vs2. change (2 ^ 1) with 2 in Vs2. rewrite Z.mod_small in Vs2 by nia.
    assert (HqS : (S * S) * (A / (S * S)) <= A < (S * S) * (A / (S * S)) + S * S).
    { pose proof (Z.div_mod A (S * S) ltac:(nia)). pose proof (Z.mod_pos_bound A (S * S) ltac:(nia)). lia. }
    assert (Hqb : A / (S * S) <= S + 6).
    { replace ((R + 1) ^ 3) with ((R + 1) * (R + 1) * (R + 1)) in HR2 by ring.
      set (q0 := A / (S * S)) in *.
      destruct (Z_le_gt_dec q0 (S + 6)) as [|Hgt]; [assumption|exfalso].
      assert (H1 : (S * S) * (S + 7) <= (S * S) * q0) by (apply Z.mul_le_mono_nonneg_l; nia).
      assert (H2 : (R + 1) * (R + 1) * (R + 1) <= (S + 1) * (S + 1) * (S + 1)).
      { assert ((R + 1) * (R + 1) <= (S + 1) * (S + 1)) by nia. nia. }
      nia. }
    destruct (dr_add D dbg w n _ q Hw Ws2 Wq) as (t & Et & Wt & Vt).
    { rewrite Vs2, Vq. nia. }
    rewrite Et. cbn [obind].
    destruct (dr_digit D w n t 3 Hw Wt ltac:(lia)) as (Wr & Vr & _).
    eexists. split; [reflexivity|]. split; [exact Wr|].
    rewrite Vr, Vt, Vs2, Vq. unfold newton. change (3 - 1) with 2. rewrite Z.pow_2_r. f_equal. ring.
  Qed.

  Theorem TU_cbrt_ok dbg w n a : 0 < w -> 3 < B w -> u128_width_ok w -> (0 < n)%nat -> wf w n a ->
    exists r, TU_cbrt dbg w a = Some (Ret r) /\ wf w n r /\ uval w r = zroot 3 (uval w a).
  Proof.
    intros Hw HB3 Hok Hn Ha. unfold TU_cbrt.
    destruct (check_zero_or_one a) eqn:Ec.
    - exists a. split; [reflexivity|]. split; [exact Ha|].
      destruct (check_zero_or_one_true w n a Hw Ha Ec) as [E|E]; rewrite E; reflexivity.
    - apply root_shortcut_ok; try assumption; [lia|]. intros Hge.
      destruct (big_bits w n a Hw Ha Hge) as ((Hbl & HblN) & HA1 & HA2).
      assert (0 < 2 ^ 128) by (apply Z.pow_pos_nonneg; lia).
      apply root_newton_ok; [exact Hw|exact Ha|lia|lia|lia|apply cbrt_closure; assumption].
  Qed.

  (* ---- nth_root, general degree ---- *)
  Lemma lin_lt_pow2 N : 0 <= N -> N < 2 ^ (N / 2 + 2).
  Proof.
    intros HN. pose proof (Z.div_mod N 2 ltac:(lia)) as Hdm. pose proof (Z.mod_pos_bound N 2 ltac:(lia)) as Hm.
    assert (H0 : 0 <= N / 2) by (apply Z.div_pos; lia).
    pose proof (Z.pow_gt_lin_r 2 (N / 2 + 1) ltac:(lia) ltac:(lia)) as Hlin.
    replace (N / 2 + 2) with (Z.succ (N / 2 + 1)) by lia. rewrite Z.pow_succ_r by lia. lia.
  Qed.

  Lemma nth_closure dbg w n a k : 0 < w -> (0 < n)%nat -> wf w n a -> 2 ^ 128 <= uval w a ->
    4 <= k < 2 ^ 32 -> k < bits_of w a ->
    closure_ok w n (nth_root_step dbg w k a) (newton k (uval w a)) (zroot k (uval w a)) (2 ^ (bits_of w a / k + 1)).
  Proof.
    intros Hw Hn Ha Hge Hk Hkb s Ws Hs.
    destruct (big_bits w n a Hw Ha Hge) as ((Hbl & HblN) & HA1 & HA2).
    pose proof (uval_bounds w n a ltac:(lia) Ha) as HAM. rewrite Mod_as_pow in HAM.
    set (A := uval w a) in *. set (bl := bits_of w a) in *. set (N := bits w n) in *.
    destruct (zroot_spec k A ltac:(lia) ltac:(lia)) as (HR0 & HR1 & HR2).
    set (R := zroot k A) in *. set (S := uval w s) in *.
    (* the root is at least 2 *)
    assert (HR : 2 <= R).
    { destruct (Z_le_gt_dec 2 R) as [|Hlt]; [assumption|exfalso].
      assert ((R + 1) ^ k <= 2 ^ k) by (apply Z.pow_le_mono_l; lia).
      assert (2 ^ k <= 2 ^ (bl - 1)) by (apply Z.pow_le_mono_r; lia). lia. }
    assert (HS2 : 2 <= S) by lia.
    set (e := bl / k + 1) in *. set (G := 2 ^ e) in *.
    assert (He : 1 <= e <= N / 4 + 1).
    { unfold e. assert (0 <= bl / k) by (apply Z.div_pos; lia).
      assert (bl / k <= bl / 4) by (apply Z.div_le_compat_l; lia).
      assert (bl / 4 <= N / 4) by (apply Z.div_le_mono; lia). lia. }
    pose proof (Z.div_mod N 2 ltac:(lia)) as HdN2. pose proof (Z.mod_pos_bound N 2 ltac:(lia)) as HmN2.
    pose proof (Z.div_mod N 4 ltac:(lia)) as HdN4. pose proof (Z.mod_pos_bound N 4 ltac:(lia)) as HmN4.
    assert (HG0 : 0 < G) by (apply Z.pow_pos_nonneg; lia).
    (* (k-1) * S < 2^(N-1) *)
    assert (Hk1 : k - 1 < 2 ^ (N / 2 + 2)) by (pose proof (lin_lt_pow2 N ltac:(lia)); lia).
    assert (HkS : S * (k - 1) < 2 ^ (N - 1)).
    { assert (S * (k - 1) <= G * (k - 1)) by (apply Z.mul_le_mono_nonneg_r; lia).
      assert (G * (k - 1) < G * 2 ^ (N / 2 + 2)) by (apply Z.mul_lt_mono_pos_l; lia).
      assert (G * 2 ^ (N / 2 + 2) = 2 ^ (e + (N / 2 + 2))) by (unfold G; symmetry; apply Z.pow_add_r; lia).
      assert (2 ^ (e + (N / 2 + 2)) <= 2 ^ (N - 1)) by (apply Z.pow_le_mono_r; lia). lia. }
    (* the quotient is below 2^(N-3) *)
    set (p := S ^ (k - 1)) in *.
    assert (Hp8 : 8 <= p).
    { unfold p. change 8 with (2 ^ 3).
      assert (2 ^ 3 <= 2 ^ (k - 1)) by (apply Z.pow_le_mono_r; lia).
      assert (2 ^ (k - 1) <= S ^ (k - 1)) by (apply Z.pow_le_mono_l; lia). lia. }
    assert (HQ : 8 * (A / p) <= A).
    { pose proof (Z.div_mod A p ltac:(lia)) as Hd. pose proof (Z.mod_pos_bound A p ltac:(lia)) as Hm.
      assert (0 <= A / p) by (apply Z.div_pos; lia).
      assert (8 * (A / p) <= p * (A / p)) by (apply Z.mul_le_mono_nonneg_r; lia). lia. }
    assert (H2N : 2 ^ N = 8 * 2 ^ (N - 3)).
    { change 8 with (2 ^ 3). rewrite <- Z.pow_add_r by lia. f_equal. lia. }
    assert (H2N1 : 2 ^ (N - 1) = 4 * 2 ^ (N - 3)).
    { change 4 with (2 ^ 2). rewrite <- Z.pow_add_r by lia. f_equal. lia. }
    assert (Hsum : S * (k - 1) + A / p < Mod w n) by (rewrite Mod_as_pow; fold N; lia).
    assert (HkM : k < Mod w n).
    { rewrite Mod_as_pow. fold N. pose proof (Z.pow_gt_lin_r 2 N ltac:(lia) ltac:(lia)). lia. }
    unfold nth_root_step. rewrite (wf_length _ _ _ Ha).
    (* q *)
    assert (Hq : exists q, match U_checked_pow w s (k - 1) with
                           | Some p0 => U_div w a p0
                           | None => Ret (ZERO n)
                           end = Ret q /\ wf w n q /\ uval w q = A / p).
    { pose proof (dr_pow D w n s (k - 1) Hw Hn Ws ltac:(lia)) as Hpow. fold S in Hpow. fold p in Hpow.
      destruct (U_checked_pow w s (k - 1)) as [p0|].
      - destruct Hpow as (Wp & Vp & _).
        destruct (U_div_ok DU w n a p0 Hw Ha Wp ltac:(lia)) as (q & Eq & Wq & Vq).
        exists q. split; [exact Eq|]. split; [exact Wq|]. rewrite Vq, Vp. reflexivity.
      - exists (ZERO n). split; [reflexivity|]. split; [apply wf_ZERO; lia|].
        rewrite uval_ZERO. symmetry. apply Z.div_small. rewrite Mod_as_pow in Hpow. fold N in Hpow. lia. }
    destruct Hq as (q & Eq & Wq & Vq). rewrite Eq. cbn [obind].
    destruct (U_from_uint_spec w n 32 (k - 1) Hw ltac:(lia) ltac:(lia) ltac:(lia)) as (mul & Emul & Wmul & Vmul).
    unfold U_from_u32. rewrite Emul. cbn [obind].
    destruct (dr_mul D dbg w n s mul Hw Ws Wmul) as (sm & Esm & Wsm & Vsm).
    { rewrite Vmul. fold S. rewrite Mod_as_pow. fold N. lia. }
    rewrite Esm. cbn [obind].
    destruct (dr_add D dbg w n sm q Hw Wsm Wq) as (t & Et & Wt & Vt).
    { rewrite Vsm, Vmul, Vq. fold S. exact Hsum. }
    rewrite Et. cbn [obind].
    destruct (U_from_uint_spec w n 32 k Hw ltac:(lia) ltac:(lia) ltac:(lia)) as (kk & Ekk & Wkk & Vkk).
    rewrite Ekk. cbn [obind].
    destruct (dr_divrem D w n t kk Hw Wt Wkk ltac:(lia)) as (Wr & _ & Vr & _).
    eexists. split; [reflexivity|]. split; [exact Wr|].
    rewrite Vr, Vt, Vsm, Vmul, Vq, Vkk. fold S. unfold newton. fold p. f_equal. ring.
  Qed.

  (* every degree: uval (nth_root a k) = floor (a^(1/k)); degree 0 panics *)
  Theorem TU_nth_root_ok dbg w n a k : 0 < w -> 3 < B w -> u128_width_ok w -> (0 < n)%nat -> wf w n a ->
    1 <= k < 2 ^ 32 ->
    exists r, TU_nth_root dbg w a k = Some (Ret r) /\ wf w n r /\ uval w r = zroot k (uval w a).
  Proof.
    intros Hw HB3 Hok Hn Ha Hk.
    pose proof (uval_bounds w n a ltac:(lia) Ha) as HAM.
    unfold TU_nth_root.
    destruct (Z.eqb_spec k 0); [lia|].
    destruct (Z.eqb_spec k 1) as [->|Hk1].
    { exists a. split; [reflexivity|]. split; [exact Ha|].
      destruct (zroot_spec 1 (uval w a) ltac:(lia) ltac:(lia)) as (H0 & H1 & H2). rewrite !Z.pow_1_r in *. lia. }
    destruct (Z.eqb_spec k 2) as [->|Hk2]; [apply TU_sqrt_ok; assumption|].
    destruct (Z.eqb_spec k 3) as [->|Hk3]; [apply TU_cbrt_ok; assumption|].
    destruct (check_zero_or_one a) eqn:Ec.
    - exists a. split; [reflexivity|]. split; [exact Ha|].
      destruct (check_zero_or_one_true w n a Hw Ha Ec) as [E|E]; rewrite E.
      + unfold zroot. reflexivity.
      + unfold zroot. cbn [Z.leb Z.compare Z.log2]. destruct (Z.ltb_spec 0 k); [reflexivity|lia].
    - apply root_shortcut_ok; try assumption; [lia|]. intros Hge.
      destruct (big_bits w n a Hw Ha Hge) as ((Hbl & HblN) & HA1 & HA2).
      assert (H128 : 0 < 2 ^ 128) by (apply Z.pow_pos_nonneg; lia).
      destruct (Z.leb_spec (bits_of w a) k) as [Hle|Hgt].
      + (* no iteration: a < 2^k, the root is 1 *)
        rewrite (wf_length _ _ _ Ha). exists (ONE n). split; [reflexivity|]. split; [apply wf_ONE; exact Hw|].
        rewrite uval_ONE by exact Hn. symmetry.
        apply (root_unique k (uval w a)); [lia|apply zroot_spec; lia|lia|apply zroot_spec; lia|].
        rewrite Z.pow_1_l by lia. change (1 + 1) with 2. split; [lia|].
        assert (2 ^ bits_of w a <= 2 ^ k) by (apply Z.pow_le_mono_r; lia). lia.
      + apply root_newton_ok; [exact Hw|exact Ha|lia|lia|lia|apply nth_closure; try assumption; lia].
  Qed.

  Theorem TU_nth_root_zero dbg w a : TU_nth_root dbg w a 0 = Some Panic.
  Proof. reflexivity. Qed.
End Roots.

(* ================= Roots for BInt ================= *)

Lemma zroot_small k X : 2 <= k -> 0 <= X -> zroot k X <= 1 \/ 2 * zroot k X <= X.
Proof.
  intros Hk HX. destruct (zroot_spec k X ltac:(lia) HX) as (H0 & H1 & _).
  set (r := zroot k X) in *. destruct (Z_le_gt_dec r 1) as [|Hr]; [left; assumption|right].
  assert (r ^ 2 <= r ^ k) by (apply Z.pow_le_mono_r; lia). rewrite Z.pow_2_r in *. nia.
Qed.

Lemma zroot_0 k : 1 <= k -> zroot k 0 = 0.
Proof. intros. reflexivity. Qed.

Section SignedRoots.
  Context (D : deps_roots) (DS : deps_signed).

  (* a root of a non-negative signed value, read back as signed *)
  Lemma root_nonneg_signed w n a r k : 0 < w -> (0 < n)%nat -> wf w n a -> wf w n r -> 1 <= k ->
    0 <= sval w a -> uval w r = zroot k (uval w a) -> sval w r = zroot k (sval w a).
  Proof.
    intros Hw Hn Ha Wr Hk Hs Vr.
    destruct (sval_nonneg_uval w n a Hw Hn Ha Hs) as [E Hlt].
    pose proof (zroot_le k (uval w a) Hk ltac:(lia)).
    rewrite (sval_of_small w n r Hw Hn Wr); [rewrite Vr, E; reflexivity|lia].
  Qed.

  Theorem TI_sqrt_ok dbg w n a : 0 < w -> u128_width_ok w -> (0 < n)%nat -> wf w n a ->
    if sval w a <? 0 then TI_sqrt dbg w a = Some Panic
    else exists r, TI_sqrt dbg w a = Some (Ret r) /\ wf w n r /\ sval w r = zroot 2 (sval w a).
  Proof.
    intros Hw Hok Hn Ha. unfold TI_sqrt. rewrite (ds_neg DS w n a Hw Hn Ha).
    destruct (Z.ltb_spec (sval w a) 0) as [Hneg|Hpos]; [reflexivity|].
    destruct (TU_sqrt_ok D dbg w n a Hw Hok Hn Ha) as (r & Er & Wr & Vr).
    exists r. split; [exact Er|]. split; [exact Wr|]. apply (root_nonneg_signed w n a r 2); auto; lia.
  Qed.

  (* |a| for negative a, its root, and the root's signed reading *)
  Lemma neg_root_small w n a r k : 0 < w -> (0 < n)%nat -> 1 < Mod w n / 2 -> wf w n a -> wf w n r -> 2 <= k ->
    sval w a < 0 -> uval w r = zroot k (- sval w a) ->
    sval w r = zroot k (- sval w a) /\ sval w r <> - (Mod w n / 2).
  Proof.
    intros Hw Hn HM Ha Wr Hk Hs Vr.
    pose proof (sval_range w n a Hw Hn Ha) as Hra.
    destruct (zroot_small k (- sval w a) Hk ltac:(lia)) as [H1|H1];
    destruct (zroot_spec k (- sval w a) ltac:(lia) ltac:(lia)) as (H0 & _).
    - rewrite (sval_of_small w n r Hw Hn Wr); lia.
    - rewrite (sval_of_small w n r Hw Hn Wr); lia.
  Qed.

  Theorem TI_cbrt_ok dbg w n a : 0 < w -> 3 < B w -> u128_width_ok w -> (0 < n)%nat -> wf w n a ->
    exists r, TI_cbrt dbg w a = Some (Ret r) /\ wf w n r /\
              sval w r = Z.sgn (sval w a) * zroot 3 (Z.abs (sval w a)).
  Proof.
    intros Hw HB3 Hok Hn Ha. unfold TI_cbrt. rewrite (ds_neg DS w n a Hw Hn Ha).
    destruct (Z.ltb_spec (sval w a) 0) as [Hneg|Hpos].
    - destruct (ds_uabs DS w n a Hw Hn Ha) as (Wa' & Va').
      destruct (TU_cbrt_ok D dbg w n _ Hw HB3 Hok Hn Wa') as (out & Eo & Wo & Vo). rewrite Eo. cbn [fbind].
      rewrite Va', Z.abs_neq in Vo by lia.
      assert (HM : 1 < Mod w n / 2).
      { pose proof (Mod_even w n Hw Hn). assert (B w <= Mod w n).
        { destruct n as [|n']; [lia|]. rewrite Mod_S by lia. pose proof (Mod_pos w n' ltac:(lia)). pose proof (B_pos w ltac:(lia)). nia. }
        lia. }
      destruct (neg_root_small w n a out 3 Hw Hn HM Ha Wo ltac:(lia) Hneg Vo) as (So & Smin).
      destruct (ds_ineg DS dbg w n out Hw Hn Wo Smin) as (r & Er & Wr & Vr).
      unfold flift. rewrite Er. exists r. split; [reflexivity|]. split; [exact Wr|].
      rewrite Vr, So, Z.sgn_neg, Z.abs_neq by lia. lia.
    - destruct (TU_cbrt_ok D dbg w n a Hw HB3 Hok Hn Ha) as (r & Er & Wr & Vr).
      exists r. split; [exact Er|]. split; [exact Wr|].
      rewrite (root_nonneg_signed w n a r 3 Hw Hn Ha Wr ltac:(lia) Hpos Vr).
      rewrite Z.abs_eq by lia. destruct (Z.eq_dec (sval w a) 0) as [E|E].
      + rewrite E. reflexivity.
      + rewrite Z.sgn_pos by lia. lia.
  Qed.

  (* nth_root for BInt: panics exactly for degree 0 and for a negative radicand with an even degree;
     otherwise the root of largest magnitude, with the sign of the radicand *)
  Theorem TI_nth_root_ok dbg w n a k : 0 < w -> 3 < B w -> u128_width_ok w -> (0 < n)%nat -> wf w n a ->
    0 <= k < 2 ^ 32 ->
    if (k =? 0) || ((sval w a <? 0) && Z.even k) then TI_nth_root dbg w a k = Some Panic
    else exists r, TI_nth_root dbg w a k = Some (Ret r) /\ wf w n r /\
                   sval w r = Z.sgn (sval w a) * zroot k (Z.abs (sval w a)).
  Proof.
    intros Hw HB3 Hok Hn Ha Hk. unfold TI_nth_root. rewrite (ds_neg DS w n a Hw Hn Ha).
    destruct (Z.ltb_spec (sval w a) 0) as [Hneg|Hpos].
    - destruct (Z.eqb_spec k 0) as [->|Hk0]; [reflexivity|]. cbn [orb andb].
      destruct (Z.eqb_spec k 1) as [->|Hk1].
      { cbn [Z.even]. exists a. split; [reflexivity|]. split; [exact Ha|].
        rewrite Z.sgn_neg, Z.abs_neq by lia.
        destruct (zroot_spec 1 (- sval w a) ltac:(lia) ltac:(lia)) as (H0 & H1 & H2). rewrite !Z.pow_1_r in *. lia. }
      destruct (Z.even k) eqn:Eev; [reflexivity|].
      assert (Hk3 : 3 <= k).
      { destruct (Z.eq_dec k 2) as [->|]; [discriminate Eev|lia]. }
      destruct (ds_uabs DS w n a Hw Hn Ha) as (Wa' & Va').
      destruct (TU_nth_root_ok D dbg w n _ k Hw HB3 Hok Hn Wa' ltac:(lia)) as (out & Eo & Wo & Vo).
      rewrite Eo. cbn [fbind].
      rewrite Va', Z.abs_neq in Vo by lia.
      assert (HM : 1 < Mod w n / 2).
      { pose proof (Mod_even w n Hw Hn). assert (B w <= Mod w n).
        { destruct n as [|n']; [lia|]. rewrite Mod_S by lia. pose proof (Mod_pos w n' ltac:(lia)). pose proof (B_pos w ltac:(lia)). nia. }
        lia. }
      destruct (neg_root_small w n a out k Hw Hn HM Ha Wo ltac:(lia) Hneg Vo) as (So & Smin).
      destruct (ds_wneg DS w n out Hw Hn Wo) as (Wr & Vr).
      eexists. split; [reflexivity|]. split; [exact Wr|].
      rewrite Z.sgn_neg, Z.abs_neq by lia.
      unfold sval at 1. rewrite (wf_length _ _ _ Wr), Vr.
      pose proof (Mod_pos w n ltac:(lia)) as HMp. pose proof (Mod_even w n Hw Hn) as HMe.
      rewrite to_signed_of_mod by assumption.
      pose proof (sval_range w n out Hw Hn Wo) as Hro.
      destruct (zroot_spec k (- sval w a) ltac:(lia) ltac:(lia)) as (H0 & _).
      assert (Hu : uval w out = sval w out) by (apply (sval_nonneg_uval w n out); auto; lia).
      rewrite wrapS_id by (try assumption; lia). lia.
    - cbn [andb]. rewrite orb_false_r.
      destruct (Z.eqb_spec k 0) as [->|Hk0]; [reflexivity|].
      destruct (TU_nth_root_ok D dbg w n a k Hw HB3 Hok Hn Ha ltac:(lia)) as (r & Er & Wr & Vr).
      exists r. split; [exact Er|]. split; [exact Wr|].
      rewrite (root_nonneg_signed w n a r k Hw Hn Ha Wr ltac:(lia) Hpos Vr).
      rewrite Z.abs_eq by lia. destruct (Z.eq_dec (sval w a) 0) as [E|E].
      + rewrite E. rewrite zroot_0 by lia. reflexivity.
      + rewrite Z.sgn_pos by lia. lia.
  Qed.
End SignedRoots.

(* ================= parity, Signed, forwarders ================= *)

Lemma B_even w : 0 < w -> B w = 2 * (B w / 2).
Proof.
  intros Hw. unfold B. replace w with (1 + (w - 1)) by lia. rewrite Z.pow_add_r by lia. change (2 ^ 1) with 2.
  rewrite (Z.mul_comm 2), Z.div_mul by lia. lia.
Qed.

Theorem TU_parity_ok w n a : 0 < w -> (0 < n)%nat -> wf w n a ->
  TU_is_even a = Z.even (uval w a) /\ TU_is_odd a = Z.odd (uval w a).
Proof.
  intros Hw Hn Ha. destruct n as [|n']; [lia|]. destruct (wf_inv_S _ _ _ Ha) as (d & r & -> & Hd & Hr).
  unfold TU_is_even, TU_is_odd, u_and. cbn [hd uval].
  assert (Hl : Z.land d 1 = d mod 2).
  { change 1 with (Z.ones 1). rewrite Z.land_ones by lia. reflexivity. }
  rewrite Hl.
  rewrite (B_even w Hw). replace (d + 2 * (B w / 2) * uval w r) with (d + 2 * (B w / 2 * uval w r)) by ring.
  rewrite Z.even_add_mul_2, Z.odd_add_mul_2.
  rewrite (Zmod_even d), <- (Z.negb_even d). destruct (Z.even d); split; reflexivity.
Qed.

Theorem TI_parity_ok w n a : 0 < w -> (0 < n)%nat -> wf w n a ->
  TI_is_even a = Z.even (sval w a) /\ TI_is_odd a = Z.odd (sval w a).
Proof.
  intros Hw Hn Ha. unfold TI_is_even, TI_is_odd.
  destruct (TU_parity_ok w n a Hw Hn Ha) as [He Ho]. rewrite He, Ho.
  pose proof (Mod_even w n Hw Hn) as HM.
  unfold sval, to_signed. rewrite (wf_length _ _ _ Ha).
  destruct (uval w a <? Mod w n / 2); [split; reflexivity|].
  rewrite HM. replace (uval w a - 2 * (Mod w n / 2)) with (uval w a + 2 * (- (Mod w n / 2))) by ring.
  rewrite Z.even_add_mul_2, Z.odd_add_mul_2. split; reflexivity.
Qed.

Lemma uval_UMAX w n : 0 <= w -> uval w (UMAX w n) = Mod w n - 1.
Proof.
  intros Hw. unfold UMAX, u_max. induction n as [|n IH]; cbn [repeat uval].
  - rewrite Mod_0. reflexivity.
  - rewrite IH, Mod_S by lia. ring.
Qed.
Lemma wf_UMAX w n : 0 <= w -> wf w n (UMAX w n).
Proof.
  intros Hw. split; [apply repeat_length|]. apply Forall_forall. intros x Hx.
  apply repeat_spec in Hx. subst x. unfold digit_ok, u_max. pose proof (B_pos w Hw). lia.
Qed.

Section SignedTrait.
  Context (NS : is_negative_spec) (IC : icmp_spec) (SUB : I_sub_spec).

  Theorem TI_signum_ok w n a : 0 < w -> (0 < n)%nat -> wf w n a ->
    wf w n (TI_signum w a) /\ sval w (TI_signum w a) = Z.sgn (sval w a).
  Proof.
    intros Hw Hn Ha. unfold TI_signum, signum. rewrite (NS w n a Hw Hn Ha), (wf_length _ _ _ Ha).
    pose proof (Mod_half_pos w n Hw Hn) as HH. pose proof (Mod_even w n Hw Hn) as HM.
    pose proof (sval_range w n a Hw Hn Ha) as Hr.
    destruct (Z.ltb_spec (sval w a) 0) as [Hneg|Hpos].
    - split; [apply wf_UMAX; lia|]. rewrite Z.sgn_neg by lia. unfold NEG_ONE, sval, to_signed. rewrite (wf_length _ _ _ (wf_UMAX w n ltac:(lia))).
      rewrite uval_UMAX by lia. destruct (Z.ltb_spec (Mod w n - 1) (Mod w n / 2)); lia.
    - rewrite (is_zero_spec w n a ltac:(lia) Ha).
      destruct (Z.eqb_spec (uval w a) 0) as [E|E].
      + split; [apply wf_ZERO; lia|]. rewrite (proj2 (sval_zero_iff w n a Hw Hn Ha) E). cbn [Z.sgn].
        rewrite (sval_of_small w n); [apply uval_ZERO|exact Hw|exact Hn|apply wf_ZERO; lia|rewrite uval_ZERO; lia].
      + assert (sval w a <> 0) by (rewrite (sval_zero_iff w n a Hw Hn Ha); exact E).
        split; [apply wf_ONE; exact Hw|]. rewrite Z.sgn_pos by lia. apply sval_ONE; auto; lia.
  Qed.

  Theorem TI_abs_sub_ok dbg w n a b : 0 < w -> (0 < n)%nat -> wf w n a -> wf w n b ->
    sval w a - sval w b < Mod w n / 2 ->
    exists r, TI_abs_sub dbg w a b = Ret r /\ wf w n r /\ sval w r = Z.max 0 (sval w a - sval w b).
  Proof.
    intros Hw Hn Ha Hb Hfit. unfold TI_abs_sub. rewrite (IC w n a b Hw Hn Ha Hb), (wf_length _ _ _ Ha).
    pose proof (Mod_half_pos w n Hw Hn) as HH.
    destruct (Z.compare_spec (sval w a) (sval w b)) as [E|E|E]; cbn [cmp_le].
    - exists (ZERO n). split; [reflexivity|]. split; [apply wf_ZERO; lia|].
      rewrite (sval_of_small w n); [rewrite uval_ZERO; lia|exact Hw|exact Hn|apply wf_ZERO; lia|rewrite uval_ZERO; lia].
    - exists (ZERO n). split; [reflexivity|]. split; [apply wf_ZERO; lia|].
      rewrite (sval_of_small w n); [rewrite uval_ZERO; lia|exact Hw|exact Hn|apply wf_ZERO; lia|rewrite uval_ZERO; lia].
    - destruct (SUB dbg w n a b Hw Hn Ha Hb ltac:(lia)) as (r & Er & Wr & Vr).
      exists r. split; [exact Er|]. split; [exact Wr|]. lia.
  Qed.
End SignedTrait.

(* the forwarding impls are the inherent models *)
Theorem forwarders_U :
  TU_checked_add = U_checked_add /\ TU_checked_sub = U_checked_sub /\ TU_checked_mul = U_checked_mul /\
  TU_checked_div = U_checked_div /\ TU_checked_rem = U_checked_rem /\ TU_checked_neg = U_checked_neg /\
  TU_checked_shl = U_checked_shl /\ TU_checked_shr = U_checked_shr /\
  TU_saturating_add = U_saturating_add /\ TU_saturating_sub = U_saturating_sub /\ TU_saturating_mul = U_saturating_mul /\
  TU_wrapping_add = U_wrapping_add /\ TU_wrapping_sub = U_wrapping_sub /\ TU_wrapping_mul = U_wrapping_mul /\
  TU_wrapping_neg = U_wrapping_neg /\ TU_wrapping_shl = U_wrapping_shl /\ TU_wrapping_shr = U_wrapping_shr /\
  TU_overflowing_add = U_overflowing_add /\ TU_overflowing_sub = U_overflowing_sub /\
  TU_div_euclid = U_div_euclid /\ TU_rem_euclid = U_rem_euclid /\
  TU_checked_div_euclid = U_checked_div_euclid /\ TU_checked_rem_euclid = U_checked_rem_euclid /\
  TU_pow = U_pow /\
  (forall dbg w a b c, TU_mul_add dbg w a b c = obind (U_mul dbg w a b) (fun p => U_add dbg w p c)) /\
  (forall n, TU_min_value n = ZERO n) /\ (forall w n, TU_max_value w n = UMAX w n) /\
  TU_div_floor = U_div /\ TU_mod_floor = U_rem /\ TU_div_rem = U_div_rem /\
  (forall dbg w a z, TU_signed_shl dbg w a z = U_shl dbg w a z) /\
  (forall dbg w a z, TU_signed_shr dbg w a z = I_shr dbg w a z) /\
  (forall dbg w a z, TU_unsigned_shl dbg w a z = U_shl dbg w a z) /\
  (forall dbg w a z, TU_unsigned_shr dbg w a z = U_shr dbg w a z).
Proof. repeat split. Qed.

Theorem forwarders_I :
  TI_checked_add = I_checked_add /\ TI_checked_sub = I_checked_sub /\ TI_checked_mul = I_checked_mul /\
  TI_checked_div = I_checked_div /\ TI_checked_rem = I_checked_rem /\ TI_checked_neg = I_checked_neg /\
  TI_checked_shl = I_checked_shl /\ TI_checked_shr = I_checked_shr /\
  TI_saturating_add = I_saturating_add /\ TI_saturating_sub = I_saturating_sub /\ TI_saturating_mul = I_saturating_mul /\
  TI_wrapping_add = I_wrapping_add /\ TI_wrapping_sub = I_wrapping_sub /\ TI_wrapping_mul = I_wrapping_mul /\
  TI_wrapping_neg = I_wrapping_neg /\ TI_wrapping_shl = I_wrapping_shl /\ TI_wrapping_shr = I_wrapping_shr /\
  TI_overflowing_add = I_overflowing_add /\ TI_overflowing_sub = I_overflowing_sub /\
  TI_div_euclid = I_div_euclid /\ TI_rem_euclid = I_rem_euclid /\
  TI_checked_div_euclid = I_checked_div_euclid /\ TI_checked_rem_euclid = I_checked_rem_euclid /\
  TI_pow = I_pow /\
  (forall dbg w a b c, TI_mul_add dbg w a b c = obind (I_mul dbg w a b) (fun p => I_add dbg w p c)) /\
  (forall w n, TI_min_value w n = IMIN w n) /\ (forall w n, TI_max_value w n = IMAX w n) /\
  TI_abs = I_abs /\ TI_signum = signum /\ TI_is_positive = is_positive /\ TI_is_negative = is_negative /\
  (forall dbg w a z, TI_signed_shl dbg w a z = I_shl dbg w a z) /\
  (forall dbg w a z, TI_signed_shr dbg w a z = I_shr dbg w a z) /\
  (forall dbg w a z, TI_unsigned_shl dbg w a z = I_shl dbg w a z) /\
  (forall dbg w a z, TI_unsigned_shr dbg w a z = U_shr dbg w a z).
Proof. repeat split. Qed.

Theorem forwarders_common :
  T_zero = ZERO /\ T_one = ONE /\ T_is_zero = is_zero /\ T_is_one = is_one /\
  T_count_ones = count_ones /\ T_count_zeros = count_zeros /\ T_leading_zeros = leading_zeros /\
  T_trailing_zeros = trailing_zeros /\ T_leading_ones = leading_ones /\ T_trailing_ones = trailing_ones /\
  T_rotate_left = rotate_left /\ T_rotate_right = rotate_right /\ T_swap_bytes = swap_bytes /\
  T_reverse_bits = reverse_bits /\ T_from_be = swap_bytes /\ T_to_be = swap_bytes /\
  (forall w a, T_from_le w a = a) /\ (forall w a, T_to_le w a = a).
Proof. repeat split. Qed.

(* ================= the root theorems in contract form ================= *)

Theorem TU_sqrt_contract (D : deps_roots) dbg w n a : 0 < w -> u128_width_ok w -> (0 < n)%nat -> wf w n a ->
  exists r, TU_sqrt dbg w a = Some (Ret r) /\ wf w n r /\ uval w r ^ 2 <= uval w a < (uval w r + 1) ^ 2.
Proof.
  intros Hw Hok Hn Ha. destruct (TU_sqrt_ok D dbg w n a Hw Hok Hn Ha) as (r & Er & Wr & Vr).
  pose proof (uval_bounds w n a ltac:(lia) Ha).
  exists r. split; [exact Er|]. split; [exact Wr|]. rewrite Vr. apply zroot_spec; lia.
Qed.

Theorem TU_cbrt_contract (D : deps_roots) dbg w n a : 0 < w -> 3 < B w -> u128_width_ok w -> (0 < n)%nat -> wf w n a ->
  exists r, TU_cbrt dbg w a = Some (Ret r) /\ wf w n r /\ uval w r ^ 3 <= uval w a < (uval w r + 1) ^ 3.
Proof.
  intros Hw HB Hok Hn Ha. destruct (TU_cbrt_ok D dbg w n a Hw HB Hok Hn Ha) as (r & Er & Wr & Vr).
  pose proof (uval_bounds w n a ltac:(lia) Ha).
  exists r. split; [exact Er|]. split; [exact Wr|]. rewrite Vr. apply zroot_spec; lia.
Qed.

Theorem TU_nth_root_contract (D : deps_roots) dbg w n a k : 0 < w -> 3 < B w -> u128_width_ok w -> (0 < n)%nat ->
  wf w n a -> 0 <= k < 2 ^ 32 ->
  if k =? 0 then TU_nth_root dbg w a k = Some Panic
  else exists r, TU_nth_root dbg w a k = Some (Ret r) /\ wf w n r /\
                 uval w r ^ k <= uval w a < (uval w r + 1) ^ k.
Proof.
  intros Hw HB Hok Hn Ha Hk. destruct (Z.eqb_spec k 0) as [->|Hk0]; [reflexivity|].
  destruct (TU_nth_root_ok D dbg w n a k Hw HB Hok Hn Ha ltac:(lia)) as (r & Er & Wr & Vr).
  pose proof (uval_bounds w n a ltac:(lia) Ha).
  exists r. split; [exact Er|]. split; [exact Wr|]. rewrite Vr. apply zroot_spec; lia.
Qed.

Lemma signed_root_contract k SA R : 1 <= k -> R = Z.sgn SA * zroot k (Z.abs SA) ->
  Z.abs R ^ k <= Z.abs SA < (Z.abs R + 1) ^ k /\ (R = 0 \/ Z.sgn R = Z.sgn SA).
Proof.
  intros Hk ->. destruct (zroot_spec k (Z.abs SA) Hk ltac:(lia)) as (H0 & H1 & H2).
  set (z := zroot k (Z.abs SA)) in *.
  destruct (Z.lt_trichotomy SA 0) as [Hs|[Hs|Hs]].
  - rewrite Z.sgn_neg by lia. replace (-1 * z) with (- z) by lia. rewrite Z.abs_opp, (Z.abs_eq z) by lia.
    split; [split; assumption|]. destruct (Z.eq_dec z 0) as [E|E]; [left; lia|right]. rewrite Z.sgn_neg; lia.
  - subst SA. cbn [Z.sgn Z.abs] in *. rewrite Z.mul_0_l. cbn [Z.abs].
    assert (z = 0) by (unfold z; reflexivity). rewrite H in *. split; [split; assumption|left; reflexivity].
  - rewrite Z.sgn_pos by lia. rewrite Z.mul_1_l, (Z.abs_eq z) by lia.
    split; [split; assumption|]. destruct (Z.eq_dec z 0) as [E|E]; [left; lia|right]. rewrite Z.sgn_pos; lia.
Qed.

Theorem TI_nth_root_contract (D : deps_roots) (DS : deps_signed) dbg w n a k :
  0 < w -> 3 < B w -> u128_width_ok w -> (0 < n)%nat -> wf w n a -> 0 <= k < 2 ^ 32 ->
  if (k =? 0) || ((sval w a <? 0) && Z.even k) then TI_nth_root dbg w a k = Some Panic
  else exists r, TI_nth_root dbg w a k = Some (Ret r) /\ wf w n r /\
         Z.abs (sval w r) ^ k <= Z.abs (sval w a) < (Z.abs (sval w r) + 1) ^ k /\
         (sval w r = 0 \/ Z.sgn (sval w r) = Z.sgn (sval w a)).
Proof.
  intros Hw HB Hok Hn Ha Hk. pose proof (TI_nth_root_ok D DS dbg w n a k Hw HB Hok Hn Ha Hk) as H.
  destruct ((k =? 0) || ((sval w a <? 0) && Z.even k)) eqn:Ec; [exact H|].
  destruct H as (r & Er & Wr & Vr). exists r. split; [exact Er|]. split; [exact Wr|].
  apply signed_root_contract; [|exact Vr].
  apply orb_false_iff in Ec. destruct Ec as [Ek _]. apply Z.eqb_neq in Ek. lia.
Qed.

Theorem TI_cbrt_contract (D : deps_roots) (DS : deps_signed) dbg w n a :
  0 < w -> 3 < B w -> u128_width_ok w -> (0 < n)%nat -> wf w n a ->
  exists r, TI_cbrt dbg w a = Some (Ret r) /\ wf w n r /\
         Z.abs (sval w r) ^ 3 <= Z.abs (sval w a) < (Z.abs (sval w r) + 1) ^ 3 /\
         (sval w r = 0 \/ Z.sgn (sval w r) = Z.sgn (sval w a)).
Proof.
  intros Hw HB Hok Hn Ha. destruct (TI_cbrt_ok D DS dbg w n a Hw HB Hok Hn Ha) as (r & Er & Wr & Vr).
  exists r. split; [exact Er|]. split; [exact Wr|]. apply signed_root_contract; [lia|exact Vr].
Qed.

Theorem TI_sqrt_contract (D : deps_roots) (DS : deps_signed) dbg w n a :
  0 < w -> u128_width_ok w -> (0 < n)%nat -> wf w n a ->
  if sval w a <? 0 then TI_sqrt dbg w a = Some Panic
  else exists r, TI_sqrt dbg w a = Some (Ret r) /\ wf w n r /\ 0 <= sval w r /\
                 sval w r ^ 2 <= sval w a < (sval w r + 1) ^ 2.
Proof.
  intros Hw Hok Hn Ha. pose proof (TI_sqrt_ok D DS dbg w n a Hw Hok Hn Ha) as H.
  destruct (Z.ltb_spec (sval w a) 0) as [Hneg|Hpos]; [exact H|].
  destruct H as (r & Er & Wr & Vr). exists r. split; [exact Er|]. split; [exact Wr|]. rewrite Vr.
  apply zroot_spec; lia.
Qed.

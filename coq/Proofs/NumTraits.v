(* Proofs/NumTraits.v — Model/NumTraits.v = Spec, for all digit widths w > 0, all digit counts n,
   all well-formed operands.  Facts about the inherent models come in as the premises of
   Proofs/NumTraitsDeps.v. *)
From Bnum Require Import Base Prim.
From Bnum.Model Require Import Digit Core Shift AddSub Mul Div Bits Pow NumTraits.
From Bnum.Proofs Require Import NumTraitsZ NumTraitsDeps.
From Coq Require Import Znumtheory.

(* ================= small facts about Core proved here ================= *)

Lemma uval_repeat0 w k : uval w (repeat 0 k) = 0.
Proof. induction k as [|k IH]; cbn [repeat uval]; [reflexivity|]. rewrite IH. lia. Qed.

Lemma wf_repeat0 w k : 0 <= w -> wf w k (repeat 0 k).
Proof.
  intros Hw. split; [apply repeat_length|]. apply Forall_forall. intros x Hx.
  apply repeat_spec in Hx. subst x. unfold digit_ok. pose proof (B_pos w Hw). lia.
Qed.

Lemma uval_ZERO w n : uval w (ZERO n) = 0.
Proof. apply uval_repeat0. Qed.
Lemma wf_ZERO w n : 0 <= w -> wf w n (ZERO n).
Proof. apply wf_repeat0. Qed.

Lemma uval_from_digit w n d : (0 < n)%nat -> uval w (from_digit n d) = d.
Proof.
  intros Hn. destruct n as [|k]; [lia|]. cbn [from_digit uval]. rewrite uval_repeat0. lia.
Qed.
Lemma wf_from_digit w n d : 0 <= w -> digit_ok w d -> wf w n (from_digit n d).
Proof.
  intros Hw Hd. destruct n as [|k]; [apply wf_nil|]. cbn [from_digit].
  apply wf_cons. split; [exact Hd|apply wf_repeat0; exact Hw].
Qed.
Lemma uval_ONE w n : (0 < n)%nat -> uval w (ONE n) = 1.
Proof. apply uval_from_digit. Qed.
Lemma wf_ONE w n : 0 < w -> wf w n (ONE n).
Proof.
  intros Hw. apply wf_from_digit; [lia|]. unfold digit_ok. pose proof (B_ge_2 w Hw). lia.
Qed.

Lemma is_zero_spec w n a : 0 <= w -> wf w n a -> is_zero a = (uval w a =? 0).
Proof.
  intros Hw. revert a. induction n as [|n IH]; intros a Ha.
  - apply wf_inv_0 in Ha. subst a. reflexivity.
  - destruct (wf_inv_S _ _ _ Ha) as (d & r & -> & Hd & Hr).
    cbn [is_zero uval]. pose proof (uval_bounds w n r Hw Hr) as Hb. pose proof (B_pos w Hw) as HB.
    unfold digit_ok in Hd. rewrite (IH r Hr).
    destruct (Z.eqb_spec d 0) as [->|Hd0].
    + destruct (Z.eqb_spec (uval w r) 0) as [->|Hr0]; symmetry; apply Z.eqb_eq || apply Z.eqb_neq; nia.
    + symmetry. apply Z.eqb_neq. nia.
Qed.

Lemma is_zero_true w n a : 0 <= w -> wf w n a -> is_zero a = true <-> uval w a = 0.
Proof. intros Hw Ha. rewrite (is_zero_spec w n a Hw Ha). apply Z.eqb_eq. Qed.
Lemma is_zero_false w n a : 0 <= w -> wf w n a -> is_zero a = false <-> uval w a <> 0.
Proof. intros Hw Ha. rewrite (is_zero_spec w n a Hw Ha). apply Z.eqb_neq. Qed.

(* signed reading of small / large patterns *)
Lemma Mod_half_pos w n : 0 < w -> (0 < n)%nat -> 0 < Mod w n / 2.
Proof.
  intros Hw Hn. pose proof (Mod_even w n Hw Hn). pose proof (Mod_pos w n ltac:(lia)). lia.
Qed.

Lemma sval_of_small w n a : 0 < w -> (0 < n)%nat -> wf w n a -> uval w a < Mod w n / 2 -> sval w a = uval w a.
Proof.
  intros Hw Hn Ha Hs. unfold sval, to_signed. rewrite (wf_length _ _ _ Ha).
  destruct (Z.ltb_spec (uval w a) (Mod w n / 2)); lia.
Qed.

Lemma sval_nonneg_uval w n a : 0 < w -> (0 < n)%nat -> wf w n a -> 0 <= sval w a -> uval w a = sval w a /\ uval w a < Mod w n / 2.
Proof.
  intros Hw Hn Ha Hs. pose proof (uval_bounds w n a ltac:(lia) Ha) as Hb.
  pose proof (Mod_even w n Hw Hn) as He.
  unfold sval, to_signed in *. rewrite (wf_length _ _ _ Ha) in *.
  destruct (Z.ltb_spec (uval w a) (Mod w n / 2)); lia.
Qed.

Lemma sval_neg_uval w n a : 0 < w -> (0 < n)%nat -> wf w n a -> sval w a < 0 -> uval w a = sval w a + Mod w n.
Proof.
  intros Hw Hn Ha Hs. pose proof (uval_bounds w n a ltac:(lia) Ha) as Hb.
  unfold sval, to_signed in *. rewrite (wf_length _ _ _ Ha) in *.
  destruct (Z.ltb_spec (uval w a) (Mod w n / 2)); lia.
Qed.

Lemma sval_ONE w n : 0 < w -> (0 < n)%nat -> 1 < Mod w n / 2 -> sval w (ONE n) = 1.
Proof.
  intros Hw Hn H1. rewrite (sval_of_small w n); [apply uval_ONE; exact Hn|exact Hw|exact Hn|apply wf_ONE; exact Hw|].
  rewrite uval_ONE by exact Hn. exact H1.
Qed.

(* ================= Integer for BUint: div_floor / mod_floor / div_rem ================= *)

Section UDiv.
  Context (D : deps_udiv).

  Lemma U_div_ok w n a b : 0 < w -> wf w n a -> wf w n b -> uval w b <> 0 ->
    exists q, U_div w a b = Ret q /\ wf w n q /\ uval w q = uval w a / uval w b.
  Proof.
    intros Hw Ha Hb Hb0. unfold U_div, U_wrapping_div, U_checked_div.
    rewrite (proj2 (is_zero_false w n b ltac:(lia) Hb) Hb0). cbn [option_expect].
    destruct (du_divrem D w n a b Hw Ha Hb Hb0) as (H1 & _ & H3 & _).
    eexists. split; [reflexivity|]. split; assumption.
  Qed.

  Lemma U_rem_ok w n a b : 0 < w -> wf w n a -> wf w n b -> uval w b <> 0 ->
    exists r, U_rem w a b = Ret r /\ wf w n r /\ uval w r = uval w a mod uval w b.
  Proof.
    intros Hw Ha Hb Hb0. unfold U_rem, U_wrapping_rem, U_checked_rem.
    rewrite (proj2 (is_zero_false w n b ltac:(lia) Hb) Hb0). cbn [option_expect].
    destruct (du_divrem D w n a b Hw Ha Hb Hb0) as (_ & H2 & _ & H4).
    eexists. split; [reflexivity|]. split; assumption.
  Qed.

  (* unsigned: floor = truncation; a zero divisor panics *)
  Theorem TU_floor_ok w n a b : 0 < w -> wf w n a -> wf w n b -> uval w b <> 0 ->
    (exists q, TU_div_floor w a b = Ret q /\ wf w n q /\ uval w q = uval w a / uval w b) /\
    (exists r, TU_mod_floor w a b = Ret r /\ wf w n r /\ uval w r = uval w a mod uval w b) /\
    (exists q r, TU_div_rem w a b = Ret (q, r) /\ wf w n q /\ wf w n r /\
                 uval w q = Z.quot (uval w a) (uval w b) /\ uval w r = Z.rem (uval w a) (uval w b)) /\
    TU_is_multiple_of w a b = Ret (uval w a mod uval w b =? 0).
  Proof.
    intros Hw Ha Hb Hb0.
    pose proof (uval_bounds w n a ltac:(lia) Ha) as Hba. pose proof (uval_bounds w n b ltac:(lia) Hb) as Hbb.
    split; [|split; [|split]].
    - apply U_div_ok; assumption.
    - apply U_rem_ok; assumption.
    - unfold TU_div_rem, U_div_rem. rewrite (proj2 (is_zero_false w n b ltac:(lia) Hb) Hb0).
      destruct (du_divrem D w n a b Hw Ha Hb Hb0) as (H1 & H2 & H3 & H4).
      destruct (U_div_rem_unchecked w a b) as [q r] eqn:E. cbn [fst snd] in *.
      exists q, r. split; [reflexivity|]. split; [exact H1|]. split; [exact H2|].
      rewrite Z.quot_div_nonneg, Z.rem_mod_nonneg by lia. split; assumption.
    - unfold TU_is_multiple_of, TU_mod_floor.
      destruct (U_rem_ok w n a b Hw Ha Hb Hb0) as (r & Hr & Hwr & Hvr). rewrite Hr. cbn [omap].
      rewrite (is_zero_spec w n r ltac:(lia) Hwr), Hvr. reflexivity.
  Qed.

  Theorem TU_floor_panic w n a b : 0 < w -> wf w n a -> wf w n b -> uval w b = 0 ->
    TU_div_floor w a b = Panic /\ TU_mod_floor w a b = Panic /\ TU_div_rem w a b = Panic /\
    TU_is_multiple_of w a b = Panic.
  Proof.
    intros Hw Ha Hb Hb0.
    pose proof (proj2 (is_zero_true w n b ltac:(lia) Hb) Hb0) as Hz.
    unfold TU_is_multiple_of, TU_div_floor, TU_mod_floor, TU_div_rem, U_div, U_rem, U_wrapping_div, U_wrapping_rem,
      U_checked_div, U_checked_rem, U_div_rem. rewrite Hz. cbn. auto.
  Qed.
End UDiv.

(* ================= Integer for BInt: div_floor / mod_floor / div_rem ================= *)

Section IFloor.
  Context (D : deps_floor).

  Lemma sign_mismatch_spec w n r b : 0 < w -> (0 < n)%nat -> wf w n r -> wf w n b ->
    sign_mismatch w r b = ((0 <? sval w r) && (sval w b <? 0)) || ((sval w r <? 0) && (0 <? sval w b)).
  Proof.
    intros Hw Hn Hr Hb. unfold sign_mismatch.
    rewrite (df_pos D w n r Hw Hn Hr), (df_neg D w n b Hw Hn Hb), (df_neg D w n r Hw Hn Hr), (df_pos D w n b Hw Hn Hb).
    reflexivity.
  Qed.

  Theorem TI_floor_ok dbg w n a b : 0 < w -> (0 < n)%nat -> wf w n a -> wf w n b ->
    sval w b <> 0 -> ~ (sval w a = - (Mod w n / 2) /\ sval w b = -1) ->
    (exists q, TI_div_floor dbg w a b = Ret q /\ wf w n q /\ sval w q = sval w a / sval w b) /\
    (exists r, TI_mod_floor dbg w a b = Ret r /\ wf w n r /\ sval w r = sval w a mod sval w b) /\
    (exists q r, TI_div_rem dbg w a b = Ret (q, r) /\ wf w n q /\ wf w n r /\
                 sval w q = Z.quot (sval w a) (sval w b) /\ sval w r = Z.rem (sval w a) (sval w b)) /\
    TI_is_multiple_of dbg w a b = Ret (sval w a mod sval w b =? 0).
  Proof.
    intros Hw Hn Ha Hb Hb0 Hmin.
    pose proof (sval_range w n a Hw Hn Ha) as Hra. pose proof (sval_range w n b Hw Hn Hb) as Hrb.
    pose proof (Mod_half_pos w n Hw Hn) as HH.
    set (H := Mod w n / 2) in *.
    assert (Hc : (sval w b =? 0) || ((sval w a =? - H) && (sval w b =? -1)) = false).
    { apply orb_false_iff. split; [apply Z.eqb_neq; exact Hb0|].
      apply andb_false_iff. destruct (Z.eqb_spec (sval w a) (- H)); [right|left; reflexivity].
      apply Z.eqb_neq. intros E. apply Hmin. split; assumption. }
    pose proof (df_div D dbg w n a b Hw Hn Ha Hb) as Hd. fold H in Hd. rewrite Hc in Hd.
    pose proof (df_rem D dbg w n a b Hw Hn Ha Hb) as Hr. fold H in Hr. rewrite Hc in Hr.
    destruct Hd as (q & Eq & Wq & Vq). destruct Hr as (r & Er & Wr & Vr).
    pose proof (floor_of_trunc (sval w a) (sval w b) Hb0) as Hft.
    pose proof (floor_div_range H (sval w a) (sval w b) HH Hra Hrb Hb0 Hmin) as Hfr.
    pose proof (floor_mod_range H (sval w a) (sval w b) Hrb Hb0) as Hmr.
    pose proof (sign_mismatch_spec w n r b Hw Hn Wr Hb) as Hsm. rewrite Vr in Hsm.
    (* in the adjusting branch the type has at least 3 bits of range, so ONE reads as 1 *)
    assert (Hone : sign_mismatch w r b = true -> sval w (ONE n) = 1).
    { intros Et. apply sval_ONE; try assumption. fold H.
      rewrite Hsm in Et. pose proof (Z.rem_bound_abs (sval w a) (sval w b) Hb0) as Habs.
      apply orb_true_iff in Et. destruct Et as [Et|Et]; apply andb_true_iff in Et; destruct Et as [E1 E2];
        apply Z.ltb_lt in E1; apply Z.ltb_lt in E2; lia. }
    split; [|split; [|split]].
    - unfold TI_div_floor. rewrite Eq, Er. cbn [obind].
      destruct (sign_mismatch w r b) eqn:Esm.
      + rewrite <- Hsm in Hft. destruct Hft as [Hf1 Hf2].
        specialize (Hone eq_refl).
        destruct (df_sub D dbg w n q (ONE n) Hw Hn Wq (wf_ONE w n Hw)) as (q' & Eq' & Wq' & Vq').
        { rewrite Hone, Vq. fold H. lia. }
        rewrite (wf_length _ _ _ Ha). exists q'. split; [exact Eq'|]. split; [exact Wq'|]. rewrite Vq', Hone, Vq. lia.
      + rewrite <- Hsm in Hft. destruct Hft as [Hf1 Hf2]. exists q. split; [reflexivity|]. split; [exact Wq|]. lia.
    - unfold TI_mod_floor. rewrite Er. cbn [obind].
      destruct (sign_mismatch w r b) eqn:Esm.
      + rewrite <- Hsm in Hft. destruct Hft as [Hf1 Hf2].
        destruct (df_add D dbg w n r b Hw Hn Wr Hb) as (r' & Er' & Wr' & Vr').
        { rewrite Vr. fold H. lia. }
        exists r'. split; [exact Er'|]. split; [exact Wr'|]. rewrite Vr', Vr. lia.
      + rewrite <- Hsm in Hft. destruct Hft as [Hf1 Hf2]. exists r. split; [reflexivity|]. split; [exact Wr|]. lia.
    - unfold TI_div_rem. rewrite Eq, Er. cbn [obind omap]. exists q, r. auto.
    - unfold TI_is_multiple_of, TI_mod_floor. rewrite Er. cbn [obind].
      destruct (sign_mismatch w r b) eqn:Esm.
      + rewrite <- Hsm in Hft. destruct Hft as [Hf1 Hf2].
        destruct (df_add D dbg w n r b Hw Hn Wr Hb) as (r' & Er' & Wr' & Vr').
        { rewrite Vr. fold H. lia. }
        rewrite Er'. cbn [omap]. rewrite (is_zero_spec w n r' ltac:(lia) Wr'). f_equal.
        pose proof (uval_bounds w n r' ltac:(lia) Wr') as Hbr'.
        assert (Hsv : sval w r' = sval w a mod sval w b) by lia.
        destruct (Z.eqb_spec (sval w a mod sval w b) 0) as [E0|E0].
        * apply Z.eqb_eq. rewrite <- Hsv in E0. destruct (sval_nonneg_uval w n r' Hw Hn Wr' ltac:(lia)). lia.
        * apply Z.eqb_neq. intros Eu. apply E0. rewrite <- Hsv.
          rewrite (sval_of_small w n r' Hw Hn Wr'); [exact Eu|]. fold H. lia.
      + rewrite <- Hsm in Hft. destruct Hft as [Hf1 Hf2]. cbn [omap].
        rewrite (is_zero_spec w n r ltac:(lia) Wr). f_equal.
        assert (Hsv : sval w r = sval w a mod sval w b) by lia.
        destruct (Z.eqb_spec (sval w a mod sval w b) 0) as [E0|E0].
        * apply Z.eqb_eq. rewrite <- Hsv in E0. destruct (sval_nonneg_uval w n r Hw Hn Wr ltac:(lia)). lia.
        * apply Z.eqb_neq. intros Eu. apply E0. rewrite <- Hsv.
          rewrite (sval_of_small w n r Hw Hn Wr); [exact Eu|]. fold H. lia.
  Qed.

  Theorem TI_floor_panic dbg w n a b : 0 < w -> (0 < n)%nat -> wf w n a -> wf w n b ->
    sval w b = 0 \/ (sval w a = - (Mod w n / 2) /\ sval w b = -1) ->
    TI_div_floor dbg w a b = Panic /\ TI_mod_floor dbg w a b = Panic /\ TI_div_rem dbg w a b = Panic /\
    TI_is_multiple_of dbg w a b = Panic.
  Proof.
    intros Hw Hn Ha Hb Hc.
    assert (Hc' : (sval w b =? 0) || ((sval w a =? - (Mod w n / 2)) && (sval w b =? -1)) = true).
    { destruct Hc as [E|[E1 E2]]; [rewrite E; reflexivity|]. rewrite E1, E2, Z.eqb_refl. cbn. apply orb_true_r. }
    pose proof (df_div D dbg w n a b Hw Hn Ha Hb) as Hd. rewrite Hc' in Hd.
    pose proof (df_rem D dbg w n a b Hw Hn Ha Hb) as Hr. rewrite Hc' in Hr.
    unfold TI_is_multiple_of, TI_div_floor, TI_mod_floor, TI_div_rem. rewrite Hd, Hr. cbn. auto.
  Qed.
End IFloor.

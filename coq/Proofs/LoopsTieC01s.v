(* Proofs/LoopsTieC01s.v — signed add / sub / neg: src/bint/overflowing.rs overflowing_add, overflowing_sub,
   overflowing_neg (the loops over the low N-1 digits followed by the signed top digit).
   Part of the tie between the loop functions GENERATED from /repo/src on every run (Generated/Loops.v,
   by tools/rs2v_loops.py) and the hand-written model (Model/AddSub.v: iadd_loop, isub_loop, ineg_loop):
   for every digit width, every digit count N > 0 (`Self::N_MINUS_1 = N - 1` does not exist for N = 0) and
   all well-formed operands, with fuel >= N the generated function neither panics nor runs out of fuel and
   returns exactly what the model function returns. *)
From Bnum Require Import Base Prim.
From Bnum.Model Require Import DigitPrims LoopPrims Digit Core Shift AddSub Imp.
From Bnum.Generated Require Import DigitGen Loops.
From Bnum.Proofs Require Import AddSubLemmas DigitTie ImpLemmas ImpLemmas2.

(* ---- the model loops: N-1 unsigned steps, then the signed step on the top digits ---- *)

Lemma iadd_loop_split w m : forall a b c, length a = S m -> length b = S m ->
  iadd_loop w a b c =
  let r := scan2 (carrying_add w) (firstn m a) (firstn m b) c in
  let '(s, o) := carrying_add_signed w (sd w (nth m a 0)) (sd w (nth m b 0)) (snd r) in
  (fst r ++ [ud w s], o).
Proof.
  induction m as [|m IH]; intros a b c Ha Hb.
  - destruct a as [|x [|? ?]]; try discriminate. destruct b as [|y [|? ?]]; try discriminate.
    cbn [iadd_loop firstn scan2 nth fst snd app].
    destruct (carrying_add_signed w (sd w x) (sd w y) c). reflexivity.
  - destruct a as [|x [|x' a]]; try discriminate. destruct b as [|y [|y' b]]; try discriminate.
    rewrite iadd_loop_cons2. cbn [length] in Ha, Hb.
    change (firstn (S m) (x :: x' :: a)) with (x :: firstn m (x' :: a)).
    change (firstn (S m) (y :: y' :: b)) with (y :: firstn m (y' :: b)).
    change (nth (S m) (x :: x' :: a) 0) with (nth m (x' :: a) 0).
    change (nth (S m) (y :: y' :: b) 0) with (nth m (y' :: b) 0).
    cbn [scan2 fst snd]. destruct (carrying_add w x y c) as [s c']. cbn [fst snd].
    rewrite (IH (x' :: a) (y' :: b)) by (cbn [length]; lia). cbv zeta.
    destruct (carrying_add_signed w _ _ _). reflexivity.
Qed.

Lemma isub_loop_split w m : forall a b c, length a = S m -> length b = S m ->
  isub_loop w a b c =
  let r := scan2 (borrowing_sub w) (firstn m a) (firstn m b) c in
  let '(s, o) := borrowing_sub_signed w (sd w (nth m a 0)) (sd w (nth m b 0)) (snd r) in
  (fst r ++ [ud w s], o).
Proof.
  induction m as [|m IH]; intros a b c Ha Hb.
  - destruct a as [|x [|? ?]]; try discriminate. destruct b as [|y [|? ?]]; try discriminate.
    cbn [isub_loop firstn scan2 nth fst snd app].
    destruct (borrowing_sub_signed w (sd w x) (sd w y) c). reflexivity.
  - destruct a as [|x [|x' a]]; try discriminate. destruct b as [|y [|y' b]]; try discriminate.
    rewrite isub_loop_cons2. cbn [length] in Ha, Hb.
    change (firstn (S m) (x :: x' :: a)) with (x :: firstn m (x' :: a)).
    change (firstn (S m) (y :: y' :: b)) with (y :: firstn m (y' :: b)).
    change (nth (S m) (x :: x' :: a) 0) with (nth m (x' :: a) 0).
    change (nth (S m) (y :: y' :: b) 0) with (nth m (y' :: b) 0).
    cbn [scan2 fst snd]. destruct (borrowing_sub w x y c) as [s c']. cbn [fst snd].
    rewrite (IH (x' :: a) (y' :: b)) by (cbn [length]; lia). cbv zeta.
    destruct (borrowing_sub_signed w _ _ _). reflexivity.
Qed.

(* the array after the m writing iterations, with the top digit then overwritten *)
Lemma prefix_then_top (pre : list Z) m v : length pre = m ->
  list_set (pre ++ skipn m (repeat 0 (S m))) m v = pre ++ [v].
Proof.
  intros Hl. rewrite skipn_repeat. replace (S m - m)%nat with 1%nat by lia. cbn [repeat].
  rewrite list_set_split by (rewrite app_length; cbn [length]; lia).
  rewrite firstn_app, Hl, Nat.sub_diag, firstn_O, app_nil_r, firstn_all2 by lia.
  rewrite skipn_all2 by (rewrite app_length; cbn [length]; lia). reflexivity.
Qed.

Lemma loops_I_overflowing_add w n a b : 0 < w -> (0 < n)%nat -> wf w n a -> wf w n b ->
  forall fuel, (n <= fuel)%nat ->
  Loops.I_overflowing_add w (Z.of_nat n) fuel a b = Done (I_overflowing_add w a b).
Proof.
  intros Hw Hn [Ha _] [Hb _] fuel Hf. destruct n as [|m]; [lia|].
  unfold Loops.I_overflowing_add. rewrite Nat2Z.id.
  rewrite (loop_writes_break0 (fun out c j => (out, c, Z.of_nat j)) (fun j => (0 + j)%nat)
             (fun j c => carrying_add w (nth j a 0) (nth j b 0) c) _ _ m (S m) fuel (ZERO (S m)) false);
    try first [lia | apply repeat_length | reflexivity].
  - rewrite run_writes_up by (unfold ZERO; rewrite repeat_length; lia).
    cbn [fst snd Nat.add firstn app bind].
    rewrite usub_ok by lia. cbn [bind]. replace (Z.of_nat (S m) - 1) with (Z.of_nat m) by lia.
    rewrite !arr_get_nat by lia. cbn [bind].
    change (DigitGen.carrying_add_signed w) with (carrying_add_signed w).
    unfold I_overflowing_add. rewrite (iadd_loop_split w m) by assumption.
    rewrite (scan_idx_scan2_firstn (carrying_add w) a b m false) by lia.
    cbv zeta. destruct (carrying_add_signed w _ _ _) as [s o].
    rewrite arr_set_nat by (rewrite app_length, skipn_length; unfold ZERO; rewrite repeat_length;
                            rewrite scan2_length_firstn by lia; lia).
    cbn [bind]. unfold ZERO. rewrite prefix_then_top by (apply scan2_length_firstn; lia). reflexivity.
  - intros [[? ?] ?]. reflexivity.
  - intros out c j Hj Hl. body_red. rewrite usub_ok by lia. cbn [bind].
    destruct (Z.ltb_spec (Z.of_nat j) (Z.of_nat (S m) - 1)); [|lia].
    rewrite !arr_get_nat by lia. cbn [bind]. rewrite DigitTie.tie_carrying_add.
    destruct (carrying_add w (nth j a 0) (nth j b 0) c) as [s c1]. cbn [fst snd Nat.add].
    rewrite arr_set_nat by lia. cbn [bind]. rewrite Nat2Z.inj_succ. reflexivity.
  - intros out c Hl. body_red. rewrite usub_ok by lia. cbn [bind].
    destruct (Z.ltb_spec (Z.of_nat m) (Z.of_nat (S m) - 1)); [lia|]. reflexivity.
Qed.

Lemma loops_I_overflowing_sub w n a b : 0 < w -> (0 < n)%nat -> wf w n a -> wf w n b ->
  forall fuel, (n <= fuel)%nat ->
  Loops.I_overflowing_sub w (Z.of_nat n) fuel a b = Done (I_overflowing_sub w a b).
Proof.
  intros Hw Hn [Ha _] [Hb _] fuel Hf. destruct n as [|m]; [lia|].
  unfold Loops.I_overflowing_sub. rewrite Nat2Z.id.
  rewrite (loop_writes_break0 (fun out c j => (out, c, Z.of_nat j)) (fun j => (0 + j)%nat)
             (fun j c => borrowing_sub w (nth j a 0) (nth j b 0) c) _ _ m (S m) fuel (ZERO (S m)) false);
    try first [lia | apply repeat_length | reflexivity].
  - rewrite run_writes_up by (unfold ZERO; rewrite repeat_length; lia).
    cbn [fst snd Nat.add firstn app bind].
    rewrite usub_ok by lia. cbn [bind]. replace (Z.of_nat (S m) - 1) with (Z.of_nat m) by lia.
    rewrite !arr_get_nat by lia. cbn [bind].
    change (DigitGen.borrowing_sub_signed w) with (borrowing_sub_signed w).
    unfold I_overflowing_sub. rewrite (isub_loop_split w m) by assumption.
    rewrite (scan_idx_scan2_firstn (borrowing_sub w) a b m false) by lia.
    cbv zeta. destruct (borrowing_sub_signed w _ _ _) as [s o].
    rewrite arr_set_nat by (rewrite app_length, skipn_length; unfold ZERO; rewrite repeat_length;
                            rewrite scan2_length_firstn by lia; lia).
    cbn [bind]. unfold ZERO. rewrite prefix_then_top by (apply scan2_length_firstn; lia). reflexivity.
  - intros [[? ?] ?]. reflexivity.
  - intros out c j Hj Hl. body_red. rewrite usub_ok by lia. cbn [bind].
    destruct (Z.ltb_spec (Z.of_nat j) (Z.of_nat (S m) - 1)); [|lia].
    rewrite !arr_get_nat by lia. cbn [bind]. rewrite DigitTie.tie_borrowing_sub.
    destruct (borrowing_sub w (nth j a 0) (nth j b 0) c) as [s c1]. cbn [fst snd Nat.add].
    rewrite arr_set_nat by lia. cbn [bind]. rewrite Nat2Z.inj_succ. reflexivity.
  - intros out c Hl. body_red. rewrite usub_ok by lia. cbn [bind].
    destruct (Z.ltb_spec (Z.of_nat m) (Z.of_nat (S m) - 1)); [lia|]. reflexivity.
Qed.

(* ---- overflowing_neg: complement-and-increment with the early exit ---- *)

(* the inner loop of the early exit: complement every digit from position k0 on *)
Lemma neg_inner_loop {R : Type} w n (a self0 : list Z) k0 fuel :
  length self0 = n -> length a = n -> (k0 <= n)%nat -> skipn k0 self0 = skipn k0 a -> (n - k0 <= fuel)%nat ->
  while_loop (R := R) fuel
    (fun '(self, i) => i <? Z.of_nat n)
    (fun '(self, i) =>
       t3' <- arr_get self i ;;
       self <- arr_set self i (u_not w t3') ;;
       let i := (i + 1) in
       Done (Continue (self, i)))
    (self0, Z.of_nat k0)
  = Done (Exited (firstn k0 self0 ++ bitnot w (skipn k0 a), Z.of_nat n)).
Proof.
  intros Hl Hla Hk Hsk Hf.
  destruct (while_count (R := R) (n - k0)
    (fun j '(self, i) => i = Z.of_nat (k0 + j) /\ (k0 + j <= n)%nat /\ length self = n /\
                         skipn (k0 + j) self = skipn (k0 + j) a /\
                         firstn (k0 + j) self = firstn k0 self0 ++ bitnot w (firstn j (skipn k0 a)))
    (fun e => e = Exited (firstn k0 self0 ++ bitnot w (skipn k0 a), Z.of_nat n))
    (fun '(self, i) => i <? Z.of_nat n)
    (fun '(self, i) =>
       t3' <- arr_get self i ;;
       self <- arr_set self i (u_not w t3') ;;
       let i := (i + 1) in
       Done (Continue (self, i)))) with (fuel := fuel) (k := 0%nat) (s := (self0, Z.of_nat k0)) as (e & He & HQ).
  - intros j [self i] (-> & Hj & Hlen & Hs & Hfst) Hc. cond_true_in Hc.
    split; [lia|]. rewrite arr_get_nat by lia. cbn [bind]. rewrite arr_set_nat by lia. cbn [bind].
    split; [lia|]. split; [lia|]. split; [rewrite list_set_length; exact Hlen|].
    replace (k0 + S j)%nat with (S (k0 + j)) by lia.
    split; [rewrite skipn_S_list_set, !skipn_S_tl, Hs; reflexivity|].
    rewrite firstn_S_list_set by lia. rewrite Hfst, <- app_assoc. f_equal.
    rewrite (firstn_S_snoc (skipn k0 a) j) by (rewrite skipn_length; lia).
    unfold bitnot. rewrite map_app. cbn [map]. do 3 f_equal.
    rewrite nth_skipn_add.
    pose proof (nth_skipn_add self (k0 + j) 0) as H1. pose proof (nth_skipn_add a (k0 + j) 0) as H2.
    rewrite Nat.add_0_r in H1, H2. rewrite <- H1, <- H2, Hs. reflexivity.
  - intros j [self i] (-> & Hj & Hlen & Hs & Hfst) Hc. cond_false_in Hc.
    assert (k0 + j = n)%nat as Hn by lia. rewrite Hn in *.
    rewrite firstn_all2 in Hfst by lia. subst self.
    rewrite (firstn_all2 (skipn k0 a)) by (rewrite skipn_length; lia). reflexivity.
  - split; [f_equal; lia|]. rewrite Nat.add_0_r. split; [lia|]. split; [exact Hl|]. split; [exact Hsk|].
    cbn [firstn bitnot map]. rewrite app_nil_r. reflexivity.
  - lia.
  - rewrite He, HQ. reflexivity.
Qed.

Lemma nth_of_skipn_eq (l l' : list Z) k : skipn k l = skipn k l' -> nth k l 0 = nth k l' 0.
Proof.
  intros H. pose proof (nth_skipn_add l k 0) as H1. pose proof (nth_skipn_add l' k 0) as H2.
  rewrite Nat.add_0_r in H1, H2. rewrite <- H1, <- H2, H. reflexivity.
Qed.

Lemma loops_I_overflowing_neg w n a : 0 < w -> (0 < n)%nat -> wf w n a ->
  forall fuel, (n <= fuel)%nat ->
  Loops.I_overflowing_neg w (Z.of_nat n) fuel a = Done (I_overflowing_neg w a).
Proof.
  intros Hw Hn [Ha _] fuel Hf. unfold Loops.I_overflowing_neg, I_overflowing_neg.
  apply while_count_bind with (n := n) (k := 0%nat)
    (Inv := fun k '(self, i) =>
       i = Z.of_nat k /\ (k <= n - 1)%nat /\ length self = n /\ skipn k self = skipn k a /\
       ineg_loop w a = let '(r, o) := ineg_loop w (skipn k a) in (firstn k self ++ r, o)).
  - intros k [self i] (-> & Hk & Hlen & Hsk & Heq) _. split; [lia|].
    rewrite usub_ok by lia. cbn [bind].
    destruct (Z.ltb_spec (Z.of_nat k) (Z.of_nat n - 1)) as [Hlt|Hge].
    + rewrite arr_get_nat by lia. cbn [bind]. rewrite (nth_of_skipn_eq self a k Hsk).
      rewrite (skipn_nth_cons a k) in Heq by lia. rewrite (skipn_nth_cons a (S k)) in Heq by lia.
      rewrite ineg_loop_cons2 in Heq. rewrite <- (skipn_nth_cons a (S k)) in Heq by lia.
      destruct (u_ovf_add w (u_not w (nth k a 0)) 1) as [s o].
      rewrite arr_set_nat by lia. cbn [bind]. destruct o; cbn [negb].
      * split; [lia|]. split; [lia|]. split; [rewrite list_set_length; exact Hlen|].
        split; [rewrite skipn_S_list_set, !skipn_S_tl, Hsk; reflexivity|].
        rewrite Heq. destruct (ineg_loop w (skipn (S k) a)) as [r' f].
        rewrite firstn_S_list_set by lia. rewrite <- app_assoc. reflexivity.
      * replace (Z.of_nat k + 1) with (Z.of_nat (S k)) by lia.
        rewrite (neg_inner_loop w n a (list_set self k s) (S k) fuel);
          try first [lia | assumption | rewrite list_set_length; assumption].
        -- cbn [bind]. rewrite Heq. rewrite firstn_S_list_set by lia. rewrite <- app_assoc. reflexivity.
        -- rewrite skipn_S_list_set, !skipn_S_tl, Hsk. reflexivity.
    + assert (k = (n - 1)%nat) as -> by lia.
      rewrite arr_get_nat by lia. cbn [bind]. rewrite (nth_of_skipn_eq self a _ Hsk).
      rewrite (skipn_nth_cons a (n - 1)) in Heq by lia. rewrite skipn_all2 in Heq by lia.
      cbn [ineg_loop] in Heq. rewrite Heq.
      destruct (s_ovf_add w (sd w (u_not w (nth (n - 1) a 0))) 1) as [s o].
      rewrite arr_set_nat by lia. cbn [bind].
      rewrite list_set_split by lia. rewrite skipn_all2 by lia. reflexivity.
  - intros k [self i] _ Hc. discriminate.
  - split; [reflexivity|]. split; [lia|]. split; [exact Ha|]. split; [reflexivity|].
    cbn [skipn firstn app]. destruct (ineg_loop w a). reflexivity.
  - lia.
Qed.

(* ---- all obligations of the group in one statement ---- *)
Theorem loops_C01s_match_model w : 0 < w ->
  (forall n a b fuel, (0 < n)%nat -> wf w n a -> wf w n b -> (n <= fuel)%nat ->
     Loops.I_overflowing_add w (Z.of_nat n) fuel a b = Done (I_overflowing_add w a b)) /\
  (forall n a b fuel, (0 < n)%nat -> wf w n a -> wf w n b -> (n <= fuel)%nat ->
     Loops.I_overflowing_sub w (Z.of_nat n) fuel a b = Done (I_overflowing_sub w a b)) /\
  (forall n a fuel, (0 < n)%nat -> wf w n a -> (n <= fuel)%nat ->
     Loops.I_overflowing_neg w (Z.of_nat n) fuel a = Done (I_overflowing_neg w a)).
Proof.
  intros Hw. split; [|split]; intros.
  - apply loops_I_overflowing_add; assumption.
  - apply loops_I_overflowing_sub; assumption.
  - apply loops_I_overflowing_neg; assumption.
Qed.

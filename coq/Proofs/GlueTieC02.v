(* Proofs/GlueTieC02.v — glue functions of C02 (mul and pow projections): generated (Generated/Glue.v) = hand-written model.
   Split out of Proofs/GlueTie.v so that an edit of one family's source breaks only that property's check. *)
From Bnum Require Import Base Prim.
From Bnum.Model Require Import Digit Core Shift AddSub Mul Div Bits Pow.
From Bnum.Generated Require Import Glue.
From Bnum.Proofs Require Import GlueTieCommon.

(* ---------- mul and pow projections ---------- *)
Lemma glue_U_checked_mul : forall w a b, Glue.U_checked_mul w a b = U_checked_mul w a b.
Proof. glue_tac. Qed.
Lemma glue_U_wrapping_mul : forall w a b, Glue.U_wrapping_mul w a b = U_wrapping_mul w a b.
Proof. glue_tac. Qed.
Lemma glue_U_saturating_mul : forall w a b, Glue.U_saturating_mul w a b = U_saturating_mul w a b.
Proof. glue_tac. Qed.
Lemma glue_U_saturating_pow : forall w a e, Glue.U_saturating_pow w a e = U_saturating_pow w a e.
Proof. glue_tac. Qed.
Lemma glue_U_strict_mul : forall w a b, Glue.U_strict_mul w a b = U_strict_mul w a b.
Proof. glue_tac. Qed.
Lemma glue_U_strict_pow : forall w a e, Glue.U_strict_pow w a e = U_strict_pow w a e.
Proof. glue_tac. Qed.
Lemma glue_I_strict_mul : forall w a b, Glue.I_strict_mul w a b = I_strict_mul w a b.
Proof. glue_tac. Qed.
Lemma glue_I_strict_pow : forall w a e, Glue.I_strict_pow w a e = I_strict_pow w a e.
Proof. glue_tac. Qed.
Lemma glue_U_mul : forall dbg w a b, Glue.U_mul dbg w a b = U_mul dbg w a b.
Proof. glue_tac. Qed.
Lemma glue_I_mul : forall dbg w a b, Glue.I_mul dbg w a b = I_mul dbg w a b.
Proof. glue_tac. Qed.
Lemma glue_I_checked_mul : forall w a b, Glue.I_checked_mul w a b = I_checked_mul w a b.
Proof. glue_tac. Qed.
Lemma glue_I_wrapping_mul : forall w a b, Glue.I_wrapping_mul w a b = I_wrapping_mul w a b.
Proof. glue_tac. Qed.
Lemma glue_I_wrapping_pow : forall w a e, Glue.I_wrapping_pow w a e = I_wrapping_pow w a e.
Proof. glue_tac. Qed.
Lemma glue_I_saturating_mul : forall w a b, Glue.I_saturating_mul w a b = I_saturating_mul w a b.
Proof. glue_tac. Qed.
Lemma glue_I_saturating_pow : forall w a e, Glue.I_saturating_pow w a e = I_saturating_pow w a e.
Proof. intros. unfold Glue.I_saturating_pow, I_saturating_pow. rewrite land1_odd. reflexivity. Qed.
Lemma glue_U_overflowing_mul : forall w a b, Glue.U_overflowing_mul w a b = U_overflowing_mul w a b.
Proof. glue_tac. Qed.
Lemma glue_I_overflowing_mul : forall w a b, Glue.I_overflowing_mul w a b = I_overflowing_mul w a b.
Proof. glue_tac. Qed.


Definition glue_mul_statement : Prop :=
  (forall w a b, Glue.U_checked_mul w a b = U_checked_mul w a b) /\
  (forall w a b, Glue.U_wrapping_mul w a b = U_wrapping_mul w a b) /\
  (forall w a b, Glue.U_saturating_mul w a b = U_saturating_mul w a b) /\
  (forall w a e, Glue.U_saturating_pow w a e = U_saturating_pow w a e) /\
  (forall w a b, Glue.U_strict_mul w a b = U_strict_mul w a b) /\
  (forall w a e, Glue.U_strict_pow w a e = U_strict_pow w a e) /\
  (forall w a b, Glue.I_strict_mul w a b = I_strict_mul w a b) /\
  (forall w a e, Glue.I_strict_pow w a e = I_strict_pow w a e) /\
  (forall dbg w a b, Glue.U_mul dbg w a b = U_mul dbg w a b) /\
  (forall dbg w a b, Glue.I_mul dbg w a b = I_mul dbg w a b) /\
  (forall w a b, Glue.I_checked_mul w a b = I_checked_mul w a b) /\
  (forall w a b, Glue.I_wrapping_mul w a b = I_wrapping_mul w a b) /\
  (forall w a e, Glue.I_wrapping_pow w a e = I_wrapping_pow w a e) /\
  (forall w a b, Glue.I_saturating_mul w a b = I_saturating_mul w a b) /\
  (forall w a e, Glue.I_saturating_pow w a e = I_saturating_pow w a e) /\
  (forall w a b, Glue.U_overflowing_mul w a b = U_overflowing_mul w a b) /\
  (forall w a b, Glue.I_overflowing_mul w a b = I_overflowing_mul w a b).
Theorem glue_mul_matches_model : glue_mul_statement.
Proof.
  unfold glue_mul_statement. repeat apply conj.
  - exact glue_U_checked_mul.
  - exact glue_U_wrapping_mul.
  - exact glue_U_saturating_mul.
  - exact glue_U_saturating_pow.
  - exact glue_U_strict_mul.
  - exact glue_U_strict_pow.
  - exact glue_I_strict_mul.
  - exact glue_I_strict_pow.
  - exact glue_U_mul.
  - exact glue_I_mul.
  - exact glue_I_checked_mul.
  - exact glue_I_wrapping_mul.
  - exact glue_I_wrapping_pow.
  - exact glue_I_saturating_mul.
  - exact glue_I_saturating_pow.
  - exact glue_U_overflowing_mul.
  - exact glue_I_overflowing_mul.
Qed.

(* ==== round 2 (tools/mk_gluetie.py) ==== *)
(* unchecked_mul of src/int/unchecked.rs *)
Lemma glue_U_unchecked_mul : forall w a b, Glue.U_unchecked_mul w a b = U_checked_mul w a b.
Proof. glue_tac. Qed.
Lemma glue_I_unchecked_mul : forall w a b, Glue.I_unchecked_mul w a b = I_checked_mul w a b.
Proof. glue_tac. Qed.

Definition glue_mul2_statement : Prop :=
  (forall w a b, Glue.U_unchecked_mul w a b = U_checked_mul w a b) /\
  (forall w a b, Glue.I_unchecked_mul w a b = I_checked_mul w a b).
Theorem glue_mul2_matches_model : glue_mul2_statement.
Proof.
  unfold glue_mul2_statement. repeat apply conj.
  - exact glue_U_unchecked_mul.
  - exact glue_I_unchecked_mul.
Qed.
(* ==== end of round 2 ==== *)

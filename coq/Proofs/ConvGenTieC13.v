(* Proofs/ConvGenTieC13.v — checked conversions from a bnum integer to a primitive integer: src/buint/convert.rs
   try_from_buint! (`impl TryFrom<$BUint<N>> for $int`, $int any of the twelve primitive integer types).  The function
   GENERATED from /repo/src on every run (Generated/ConvGen.v, by tools/rs2v_conv.py; pb = <$int>::BITS, ps = signedness)
   equals the hand-written model Model/Convert.v U_try_to_prim (an `outcome (result Z)` on its own loop combinators), for BOTH
   values of the model's overflow-check flag.  The only panic left is the index panic of `u.digits[0]` for N = 0 in the
   `$Digit::BITS > <$int>::BITS` branch, which both have. *)
From Bnum Require Import Base Prim.
From Bnum.Model Require Import DigitPrims LoopPrims Core Imp ImpConv.
From Bnum.Model Require Cast Convert.
From Bnum.Generated Require Import DigitGen ConvGen.
From Bnum.Proofs Require Import ImpLemmas ImpLemmas2 ConvGenTieBase.

(* after `out` and `i` are set: `if out < 0 { return Err } while i < N { .. } Ok(out)` *)
Lemma try_tail_tie pb ps ds out i fuel : (length ds <= fuel)%nat ->
  (if (p_is_neg pb ps out) then (
     Done Convert.Err
   ) else (
     t4' <- while_loop (R := (Convert.result Z)) fuel
       (fun i => (i <? Z.of_nat (length ds)))
       (fun i =>
         t3' <- arr_get ds i ;;
         if (negb (t3' =? 0)) then (
           Done (Return Convert.Err)
         ) else (
           let i := (i + 1) in
           Done (Continue i)
         ))
       (Z.of_nat i) ;;
     match t4' with
     | Exited i =>
         Done (Convert.Ok (Cast.p_of_bits pb ps out))
     | Returned t5' => Done t5'
     end
   )) = of_out (Convert.U_try_tail pb ps ds out i).
Proof.
  intros Hf. unfold Convert.U_try_tail, p_is_neg. destruct (ps && (sd pb out <? 0)); [reflexivity|].
  rewrite of_out_obind. etransitivity; [apply (pad_loop_tie _ _ ds _ (length ds)); lia|].
  apply bind_ext. intros [|]; reflexivity.
Qed.

Lemma conv_try_from_buint dbg w lg n pb ps ds : 0 <= lg -> w = 2 ^ lg -> length ds = n ->
  forall fuel, (S n <= fuel)%nat ->
  ConvGen.try_from_buint w (Z.of_nat n) fuel pb ps ds =
  match Convert.U_try_to_prim dbg pb ps w ds with Ret r => Done r | Panic => Panicked end.
Proof.
  intros Hlg Hw Hn fuel Hf. subst n. unfold ConvGen.try_from_buint, Convert.U_try_to_prim.
  rewrite p_lit_0. cbv zeta. rewrite Z.gtb_ltb. destruct (pb <? w).
  - change (arr_get ds 0) with (arr_get ds (Z.of_nat 0)). rewrite <- rd_as_arr_get.
    destruct (Cast.rd ds 0) as [d0|]; [|reflexivity]. cbn [of_out bind obind].
    destruct (negb (d0 =? ud w (Cast.p_of_bits pb ps (ud pb d0)))); [reflexivity|].
    change 1 with (Z.of_nat 1). apply try_tail_tie. lia.
  - change (match ?o with Ret r => Done r | Panic => Panicked end) with (of_out o).
    rewrite of_out_obind.
    etransitivity.
    + eapply (try_loop_tie (R := Convert.result Z) dbg w lg pb (fun d => d) u_or ds _ _ Hlg Hw (length ds) fuel 0%nat 0); lia.
    + apply bind_ext. intros [out i]. cbn [fst snd]. apply try_tail_tie. lia.
Qed.

(* ---- int_try_from_bint!: `impl TryFrom<$BInt<N>> for $int`, $int = i8 .. i128, isize (the instantiation list is checked: signed
   types only, so ps = true) ---- *)

(* after `out` and `i` are set: `while i < N { if digits[i] != padding { return Err } .. } if out.is_negative() != neg { return Err } Ok(out)` *)
Lemma i_try_tail_tie pb ds neg padding out i fuel : (length ds <= fuel)%nat ->
  (t4' <- while_loop (R := (Convert.result Z)) fuel
     (fun i => (i <? Z.of_nat (length ds)))
     (fun i =>
       t3' <- arr_get ds i ;;
       if (negb (t3' =? padding)) then (
         Done (Return Convert.Err)
       ) else (
         let i := (i + 1) in
         Done (Continue i)
       ))
     (Z.of_nat i) ;;
   match t4' with
   | Exited i =>
       if (xorb (p_is_neg pb true out) neg) then (
         Done Convert.Err
       ) else (
         Done (Convert.Ok (Cast.p_of_bits pb true out))
       )
   | Returned t5' => Done t5'
   end) = of_out (Convert.I_try_tail pb ds neg padding out i).
Proof.
  intros Hf. unfold Convert.I_try_tail. rewrite of_out_obind. etransitivity; [apply (pad_loop_tie _ _ ds _ (length ds)); lia|].
  apply bind_ext. intros [|]; cbn [negb]; [|reflexivity].
  unfold p_is_neg. cbn [andb]. rewrite xorb_negb_eqb. destruct (negb _); reflexivity.
Qed.

Lemma conv_int_try_from_bint dbg w lg n pb ds : 0 <= lg -> w = 2 ^ lg -> 0 < pb -> length ds = n ->
  forall fuel, (S n <= fuel)%nat ->
  ConvGen.int_try_from_bint w (Z.of_nat n) fuel pb true ds =
  match Convert.I_try_to_iprim dbg pb w ds with Ret r => Done r | Panic => Panicked end.
Proof.
  intros Hlg Hw Hpb Hn fuel Hf. subst n. unfold ConvGen.int_try_from_bint, Convert.I_try_to_iprim.
  change (match ?o with Ret r => Done r | Panic => Panicked end) with (of_out o).
  rewrite p_lit_0, p_lit_m1 by lia. rewrite Z.gtb_ltb.
  destruct (is_negative w ds); cbv beta iota zeta; destruct (pb <? w).
  - change (arr_get ds 0) with (arr_get ds (Z.of_nat 0)). rewrite of_out_obind, <- rd_as_arr_get.
    destruct (Cast.rd ds 0) as [d0|]; [|reflexivity]. cbn [of_out bind].
    destruct (negb (d0 =? ud w (Cast.p_of_bits pb true (ud pb d0)))); [reflexivity|].
    change 1 with (Z.of_nat 1). apply i_try_tail_tie. lia.
  - rewrite of_out_obind. etransitivity.
    + eapply (try_loop_tie (R := Convert.result Z) dbg w lg pb (u_not w) (fun out t => u_and out (u_not pb t)) ds _ _ Hlg Hw
                (length ds) fuel 0%nat (u_not pb 0)); lia.
    + apply bind_ext. intros [out i]. cbn [fst snd]. apply i_try_tail_tie. lia.
  - change (arr_get ds 0) with (arr_get ds (Z.of_nat 0)). rewrite of_out_obind, <- rd_as_arr_get.
    destruct (Cast.rd ds 0) as [d0|]; [|reflexivity]. cbn [of_out bind].
    destruct (negb (d0 =? ud w (Cast.p_of_bits pb true (ud pb d0)))); [reflexivity|].
    change 1 with (Z.of_nat 1). apply i_try_tail_tie. lia.
  - rewrite of_out_obind. etransitivity.
    + eapply (try_loop_tie (R := Convert.result Z) dbg w lg pb (fun d => d) u_or ds _ _ Hlg Hw (length ds) fuel 0%nat 0); lia.
    + apply bind_ext. intros [out i]. cbn [fst snd]. apply i_try_tail_tie. lia.
Qed.

(* ---- uint_try_from_bint!: `impl TryFrom<$BInt<N>> for $uint`, $uint = u8 .. u128, usize (checked: unsigned types only, ps = false):
   a negative source is an error, otherwise try_from_buint! on the same digits ---- *)
Lemma conv_uint_try_from_bint dbg w lg n pb ds : 0 <= lg -> w = 2 ^ lg -> length ds = n ->
  forall fuel, (S n <= fuel)%nat ->
  ConvGen.uint_try_from_bint w (Z.of_nat n) fuel pb false ds =
  match Convert.I_try_to_uprim dbg pb w ds with Ret r => Done r | Panic => Panicked end.
Proof.
  intros Hlg Hw Hn fuel Hf. unfold ConvGen.uint_try_from_bint, Convert.I_try_to_uprim.
  destruct (is_negative w ds); [reflexivity|].
  rewrite bind_done_r. apply (conv_try_from_buint dbg w lg); assumption.
Qed.

(* ---- primitive -> bnum.  bint from_int!: `impl From<$int> for $BInt<N>`, $int = i8 .. i128, isize (the parameter handled as its
   value: `int >> s` is floor division, `as $Digit` reduction mod 2^w) ---- *)
Lemma bint_from_int_loop dbg w lg pb int : 0 <= lg -> w = 2 ^ lg ->
  forall f fuel i out, pb <= Z.of_nat (i + f) * w -> (f <= fuel)%nat ->
  bind (while_loop (R := list Z) fuel
          (fun '(out, i) => ((ix_shl i (digit_BIT_SHIFT w)) <? pb))
          (fun '(out, i) =>
             t1' <- pshr pb int (ix_shl i (digit_BIT_SHIFT w)) ;;
             let d := (ud w t1') in
             out <- arr_set out i d ;;
             let i := (i + 1) in
             Done (Continue (out, i)))
          (out, Z.of_nat i))
       (fun t2' => match t2' with Exited (out, i) => Done out | Returned t3' => Done t3' end)
  = of_out (Cast.while_ f (fun i _ => Z.of_nat i * w <? pb)
              (fun i out => obind (Cast.shr_chk dbg pb int (Z.of_nat i * w)) (fun t => Cast.wr out i (ud w t)))
              i out).
Proof.
  intros Hlg Hw. assert (Hw0 : 0 < w) by (subst w; apply Z.pow_pos_nonneg; lia).
  induction f as [|f IH]; intros fuel i out Hend Hf.
  - cbn [Cast.while_ of_out]. rewrite while_loop_cond_false; [reflexivity|].
    rewrite (ix_shl_BIT_SHIFT w lg) by assumption. rewrite Nat.add_0_r in Hend. apply Z.ltb_ge. exact Hend.
  - cbn [Cast.while_]. destruct (Z.ltb_spec (Z.of_nat i * w) pb) as [Hlt|Hge].
    + destruct fuel as [|fuel]; [lia|]. rewrite while_loop_S. cbv beta iota.
      rewrite (ix_shl_BIT_SHIFT w lg) by assumption.
      destruct (Z.ltb_spec (Z.of_nat i * w) pb) as [_|?]; [|lia].
      rewrite pshr_ok by nia. rewrite shr_chk_in_range by exact Hlt. cbn [bind obind]. cbv zeta.
      rewrite <- wr_as_arr_set. destruct (Cast.wr out i _) as [out'|]; [|reflexivity]. cbn [bind].
      replace (Z.of_nat i + 1) with (Z.of_nat (S i)) by lia.
      apply IH; [|lia]. replace (S i + f)%nat with (i + S f)%nat by lia. exact Hend.
    + cbn [of_out]. rewrite while_loop_cond_false; [reflexivity|].
      rewrite (ix_shl_BIT_SHIFT w lg) by assumption. apply Z.ltb_ge. exact Hge.
Qed.

Lemma conv_bint_from_int dbg w lg n pb int : 0 <= lg -> w = 2 ^ lg -> 0 < pb ->
  forall fuel, (Z.to_nat pb <= fuel)%nat ->
  ConvGen.bint_from_int w (Z.of_nat n) fuel pb int =
  match Convert.I_from_iint dbg pb w n int with Ret r => Done r | Panic => Panicked end.
Proof.
  intros Hlg Hw Hpb fuel Hf. assert (Hw0 : 0 < w) by (subst w; apply Z.pow_pos_nonneg; lia).
  unfold ConvGen.bint_from_int, Convert.I_from_iint. rewrite Nat2Z.id. cbv zeta.
  apply (bint_from_int_loop dbg w lg pb int Hlg Hw (Z.to_nat pb) fuel 0%nat); [|exact Hf].
  cbn [Nat.add]. nia.
Qed.

(* bint from_uint!: `impl From<$from> for $BInt<N>`: Self::from_bits($BUint::from(int)); $BUint::from is the hand model's
   U_from_uint (its own tie: Proofs/LoopsTieC13.v) *)
Lemma conv_bint_from_uint dbg w n pb int fuel :
  ConvGen.bint_from_uint dbg w (Z.of_nat n) fuel pb int =
  match Convert.I_from_uint dbg pb w n int with Ret r => Done r | Panic => Panicked end.
Proof.
  unfold ConvGen.bint_from_uint, Convert.I_from_uint. rewrite Nat2Z.id.
  destruct (Convert.U_from_uint dbg pb w n int); reflexivity.
Qed.

(* buint try_from_iint!: `impl TryFrom<$int> for $BUint<N>` ($int -> $uint pairs of the same width, checked) *)
Lemma conv_try_from_iint dbg w n pb int fuel :
  ConvGen.try_from_iint dbg w (Z.of_nat n) fuel pb int =
  match Convert.U_try_from_iint dbg pb w n int with Ret r => Done r | Panic => Panicked end.
Proof.
  unfold ConvGen.try_from_iint, Convert.U_try_from_iint. rewrite Nat2Z.id.
  destruct (int <? 0); [reflexivity|]. cbv zeta.
  destruct (Convert.U_from_uint dbg pb w n (ud pb int)); reflexivity.
Qed.

(* ---- all obligations of the group in one statement ---- *)
Theorem conv_C13_match_model dbg w lg : 0 <= lg -> w = 2 ^ lg ->
  forall n pb ds fuel, 0 < pb -> length ds = n -> (S n <= fuel)%nat ->
  (forall ps, ConvGen.try_from_buint w (Z.of_nat n) fuel pb ps ds =
     match Convert.U_try_to_prim dbg pb ps w ds with Ret r => Done r | Panic => Panicked end) /\
  ConvGen.int_try_from_bint w (Z.of_nat n) fuel pb true ds =
    match Convert.I_try_to_iprim dbg pb w ds with Ret r => Done r | Panic => Panicked end /\
  ConvGen.uint_try_from_bint w (Z.of_nat n) fuel pb false ds =
    match Convert.I_try_to_uprim dbg pb w ds with Ret r => Done r | Panic => Panicked end.
Proof.
  intros Hlg Hw n pb ds fuel Hpb Hn Hf. split; [|split].
  - intros ps. apply (conv_try_from_buint dbg w lg); assumption.
  - apply (conv_int_try_from_bint dbg w lg); assumption.
  - apply (conv_uint_try_from_bint dbg w lg); assumption.
Qed.

Theorem conv_C13_from_match_model dbg w lg : 0 <= lg -> w = 2 ^ lg ->
  forall n pb int fuel, 0 < pb -> (Z.to_nat pb <= fuel)%nat ->
  ConvGen.bint_from_int w (Z.of_nat n) fuel pb int =
    match Convert.I_from_iint dbg pb w n int with Ret r => Done r | Panic => Panicked end /\
  ConvGen.bint_from_uint dbg w (Z.of_nat n) fuel pb int =
    match Convert.I_from_uint dbg pb w n int with Ret r => Done r | Panic => Panicked end /\
  ConvGen.try_from_iint dbg w (Z.of_nat n) fuel pb int =
    match Convert.U_try_from_iint dbg pb w n int with Ret r => Done r | Panic => Panicked end.
Proof.
  intros Hlg Hw n pb int fuel Hpb Hf. split; [|split].
  - apply (conv_bint_from_int dbg w lg); assumption.
  - apply conv_bint_from_uint.
  - apply conv_try_from_iint.
Qed.

(* Proofs/ParseGenTieD.v — tie of the generated parsing code (Generated/ParseGen.v), part D: the public wrappers
   (from_str_radix, parse_bytes, parse_str_radix, from_radix_be / le, FromStr of BUint and BInt) equal the hand-written
   model Model/Parse.v (its U_.. and I_.. functions), and the statement of the whole tie. *)
From Bnum Require Import Base Prim.
From Bnum.Model Require Import Digit DigitPrims LoopPrims Core AddSub Bits Imp ImpParse Parse.
From Bnum.Generated Require Import DigitGen ParseGen.
From Bnum.Proofs Require Import ParseSpec ImpLemmas ImpLemmas2 ParseGenTieA ParseGenTieB ParseGenTieC.

(* ---------- Result::ok and the panic of parse_str_radix ---------- *)

Lemma pout_val_ok {A} (r : res (result A)) :
  pout_val (bind r (fun t => Done (match t with ROk v => Some v | RErr _ => None end))) = pok (pout_of r).
Proof. destruct r as [[a|e]| |]; reflexivity. Qed.

Lemma pout_val_unwrap {A} (r : res (result A)) :
  pout_val (bind r (fun t => match t with ROk v => Done v | RErr _ => Panicked end))
  = match pout_of r with PErr _ => PPanic | x => x end.
Proof. destruct r as [[a|e]| |]; reflexivity. Qed.

Lemma range_test radix m : andb (radix >=? 2) (radix <=? m) = radix_in_range radix m.
Proof. unfold radix_in_range. rewrite Z.geb_leb. reflexivity. Qed.

Lemma bytes_tl b0 l : bytes (b0 :: l) -> 0 <= b0 < 256.
Proof. intros H. inversion H; assumption. Qed.

(* ---------- BUint ---------- *)

Lemma gen_from_str_radix dbg w n src radix fuel :
  8 <= w -> bytes src -> (parse_fuel w n src <= fuel)%nat ->
  pout_of (ParseGen.from_str_radix dbg w (Z.of_nat n) fuel src radix) = U_from_str_radix dbg w n src radix.
Proof.
  intros Hw Hb Hf. unfold ParseGen.from_str_radix, U_from_str_radix. rewrite range_test.
  destruct (radix_in_range radix 36) eqn:Er; [|reflexivity].
  destruct src as [|b0 l]; [reflexivity|]. cbn [length]. rewrite Nat2Z.inj_succ.
  destruct (Z.eqb_spec (Z.succ (Z.of_nat (length l))) 0) as [|_]; [lia|].
  cbv zeta. rewrite arr_get_ok by (cbn [length]; lia). rewrite bind_Done. cbn [Z.to_nat nth]. rewrite bind_ret_r.
  unfold radix_in_range in Er. apply andb_prop in Er. destruct Er as [E1 E2].
  apply gen_from_buf_radix_internal; try assumption; [lia | intros _; cbn [length]; lia].
Qed.

Lemma gen_parse_bytes dbg w n buf radix fuel :
  8 <= w -> bytes buf -> (parse_fuel w n buf <= fuel)%nat ->
  pout_val (ParseGen.parse_bytes dbg w (Z.of_nat n) fuel buf radix) = U_parse_bytes dbg w n buf radix.
Proof.
  intros Hw Hb Hf. unfold ParseGen.parse_bytes, U_parse_bytes.
  destruct (utf8_valid buf); [|reflexivity]. cbv zeta.
  rewrite pout_val_ok, gen_from_str_radix by assumption. reflexivity.
Qed.

Lemma gen_parse_str_radix dbg w n src radix fuel :
  8 <= w -> bytes src -> (parse_fuel w n src <= fuel)%nat ->
  pout_val (ParseGen.parse_str_radix dbg w (Z.of_nat n) fuel src radix) = U_parse_str_radix dbg w n src radix.
Proof.
  intros Hw Hb Hf. unfold ParseGen.parse_str_radix, U_parse_str_radix.
  rewrite pout_val_unwrap, gen_from_str_radix by assumption. reflexivity.
Qed.

Lemma gen_from_str dbg w n src fuel :
  8 <= w -> bytes src -> (parse_fuel w n src <= fuel)%nat ->
  pout_of (ParseGen.from_str dbg w (Z.of_nat n) fuel src) = U_from_str dbg w n src.
Proof.
  intros Hw Hb Hf. unfold ParseGen.from_str, U_from_str. rewrite bind_ret_r. apply gen_from_str_radix; assumption.
Qed.

Lemma gen_from_radix_be dbg w n buf radix fuel :
  8 <= w -> bytes buf -> (parse_fuel w n buf <= fuel)%nat ->
  pout_val (ParseGen.from_radix_be dbg w (Z.of_nat n) fuel buf radix) = U_from_radix_be dbg w n buf radix.
Proof.
  intros Hw Hb Hf. unfold ParseGen.from_radix_be, U_from_radix_be. rewrite range_test, Nat2Z.id.
  destruct (radix_in_range radix 256) eqn:Er; [|reflexivity].
  destruct buf as [|b0 l]; [reflexivity|]. cbn [length]. rewrite Nat2Z.inj_succ.
  destruct (Z.eqb_spec (Z.succ (Z.of_nat (length l))) 0) as [|_]; [lia|].
  destruct (radix =? 256); [reflexivity|].
  unfold radix_in_range in Er. apply andb_prop in Er. destruct Er as [E1 E2].
  rewrite pout_val_ok, gen_from_buf_radix_internal; try assumption; try reflexivity; [lia | discriminate].
Qed.

Lemma gen_from_radix_le dbg w n buf radix fuel :
  8 <= w -> bytes buf -> (parse_fuel w n buf <= fuel)%nat ->
  pout_val (ParseGen.from_radix_le dbg w (Z.of_nat n) fuel buf radix) = U_from_radix_le dbg w n buf radix.
Proof.
  intros Hw Hb Hf. unfold ParseGen.from_radix_le, U_from_radix_le. rewrite range_test, Nat2Z.id.
  destruct (radix_in_range radix 256) eqn:Er; [|reflexivity].
  destruct buf as [|b0 l]; [reflexivity|]. cbn [length]. rewrite Nat2Z.inj_succ.
  destruct (Z.eqb_spec (Z.succ (Z.of_nat (length l))) 0) as [|_]; [lia|].
  destruct (radix =? 256); [reflexivity|].
  unfold radix_in_range in Er. apply andb_prop in Er. destruct Er as [E1 E2].
  rewrite pout_val_ok, gen_from_buf_radix_internal; try assumption; try reflexivity; [lia | discriminate].
Qed.

(* ---------- BInt ---------- *)

(* what follows the call of from_buf_radix_internal in BInt::from_str_radix, for a known sign *)
Lemma gen_signed_tail w n (negative : bool) (r : res (result (list Z))) : (0 < n)%nat -> 0 < w ->
  pout_of
    (bind r (fun t => match t with
       | ROk uint =>
           if negative then
             t3' <- usub (w * Z.of_nat n) 1 ;;
             t4' <- Imp.of_outcome (Bits.bit w uint t3') ;;
             t6' <- (if t4' then (t5' <- usub (w * Z.of_nat n) 1 ;; Done (negb (Bits.trailing_zeros w uint =? t5'))) else Done false) ;;
             if t6' then Done (RErr KNegOverflow) else Done (ROk (AddSub.I_wrapping_neg w uint))
           else if Core.is_negative w uint then Done (RErr KPosOverflow) else Done (ROk uint)
       | RErr err =>
           match err with
           | KPosOverflow => if negative then Done (RErr KNegOverflow) else Done (RErr err)
           | _ => Done (RErr err)
           end
       end))
  = match pout_of r with
    | POk uint =>
        if negative then
          pbind (Parse.of_outcome (bit w uint (bits w n - 1))) (fun top =>
            if top && negb (trailing_zeros w uint =? bits w n - 1) then PErr NegOverflow
            else POk (I_wrapping_neg w uint))
        else if is_negative w uint then PErr PosOverflow else POk uint
    | PErr k => if (k =? PosOverflow) && negative then PErr NegOverflow else PErr k
    | PPanic => PPanic
    | PFuel => PFuel
    end.
Proof.
  intros Hn Hw. destruct r as [[uint|err]| |]; try reflexivity; cbn [bind pout_of].
  - destruct negative; [|destruct (is_negative w uint); reflexivity].
    unfold bits. rewrite usub_ok by nia. rewrite !bind_Done.
    destruct (bit w uint (w * Z.of_nat n - 1)) as [top|]; [|reflexivity]. cbn [Imp.of_outcome Parse.of_outcome pbind]. rewrite bind_Done.
    destruct top; cbn [andb]; [|reflexivity]. rewrite bind_Done.
    destruct (trailing_zeros w uint =? w * Z.of_nat n - 1); reflexivity.
  - destruct err, negative; reflexivity.
Qed.

Lemma gen_I_from_str_radix dbg w n src radix fuel :
  8 <= w -> (0 < n)%nat -> bytes src -> (parse_fuel w n src <= fuel)%nat ->
  pout_of (ParseGen.I_from_str_radix dbg w (Z.of_nat n) fuel src radix) = I_from_str_radix dbg w n src radix.
Proof.
  intros Hw Hn Hb Hf. unfold ParseGen.I_from_str_radix, I_from_str_radix. rewrite range_test.
  destruct (radix_in_range radix 36) eqn:Er; [|reflexivity].
  destruct src as [|b0 l]; [reflexivity|]. cbn [length]. rewrite Nat2Z.inj_succ.
  destruct (Z.eqb_spec (Z.succ (Z.of_nat (length l))) 0) as [|_]; [lia|].
  cbv zeta. rewrite arr_get_ok by (cbn [length]; lia). rewrite bind_Done. cbn [Z.to_nat nth].
  unfold radix_in_range in Er. apply andb_prop in Er. destruct Er as [E1 E2].
  assert (Hcall : forall sign, pout_of (ParseGen.from_buf_radix_internal dbg w (Z.of_nat n) fuel true true (b0 :: l) radix sign)
                               = from_buf_radix_internal true true dbg w n (b0 :: l) radix sign).
  { intros sign. apply gen_from_buf_radix_internal; try assumption; [lia | intros _; cbn [length]; lia]. }
  destruct (b0 =? 45) eqn:E45.
  - cbn [orb]. cbv beta iota. rewrite (gen_signed_tail w n true) by lia. rewrite Hcall. reflexivity.
  - cbn [orb]. rewrite bind_Done. cbn [Z.to_nat nth].
    destruct (b0 =? 43) eqn:E43; cbv beta iota.
    + pose proof (gen_signed_tail w n false (ParseGen.from_buf_radix_internal dbg w (Z.of_nat n) fuel true true (b0 :: l) radix true)
                    Hn ltac:(lia)) as HT. cbv beta iota in HT. rewrite HT, Hcall. reflexivity.
    + pose proof (gen_signed_tail w n false (ParseGen.from_buf_radix_internal dbg w (Z.of_nat n) fuel true true (b0 :: l) radix false)
                    Hn ltac:(lia)) as HT. cbv beta iota in HT. rewrite HT, Hcall. reflexivity.
Qed.

Lemma gen_I_parse_bytes dbg w n buf radix fuel :
  8 <= w -> (0 < n)%nat -> bytes buf -> (parse_fuel w n buf <= fuel)%nat ->
  pout_val (ParseGen.I_parse_bytes dbg w (Z.of_nat n) fuel buf radix) = I_parse_bytes dbg w n buf radix.
Proof.
  intros Hw Hn Hb Hf. unfold ParseGen.I_parse_bytes, I_parse_bytes.
  destruct (utf8_valid buf); [|reflexivity]. cbv zeta.
  rewrite pout_val_ok, gen_I_from_str_radix by assumption. reflexivity.
Qed.

Lemma gen_I_parse_str_radix dbg w n src radix fuel :
  8 <= w -> (0 < n)%nat -> bytes src -> (parse_fuel w n src <= fuel)%nat ->
  pout_val (ParseGen.I_parse_str_radix dbg w (Z.of_nat n) fuel src radix) = I_parse_str_radix dbg w n src radix.
Proof.
  intros Hw Hn Hb Hf. unfold ParseGen.I_parse_str_radix, I_parse_str_radix.
  rewrite pout_val_unwrap, gen_I_from_str_radix by assumption. reflexivity.
Qed.

Lemma gen_I_from_str dbg w n src fuel :
  8 <= w -> (0 < n)%nat -> bytes src -> (parse_fuel w n src <= fuel)%nat ->
  pout_of (ParseGen.I_from_str dbg w (Z.of_nat n) fuel src) = I_from_str dbg w n src.
Proof.
  intros Hw Hn Hb Hf. unfold ParseGen.I_from_str, I_from_str. rewrite bind_ret_r. apply gen_I_from_str_radix; assumption.
Qed.

Lemma option_eta_bind {A} (r : res (option A)) :
  bind r (fun t => match t with Some u => Done (Some u) | None => Done None end) = r.
Proof. destruct r as [[u|]| |]; reflexivity. Qed.

Lemma gen_I_from_radix_be dbg w n buf radix fuel :
  8 <= w -> bytes buf -> (parse_fuel w n buf <= fuel)%nat ->
  pout_val (ParseGen.I_from_radix_be dbg w (Z.of_nat n) fuel buf radix) = I_from_radix_be dbg w n buf radix.
Proof.
  intros Hw Hb Hf. unfold ParseGen.I_from_radix_be, I_from_radix_be. rewrite option_eta_bind.
  apply gen_from_radix_be; assumption.
Qed.

Lemma gen_I_from_radix_le dbg w n buf radix fuel :
  8 <= w -> bytes buf -> (parse_fuel w n buf <= fuel)%nat ->
  pout_val (ParseGen.I_from_radix_le dbg w (Z.of_nat n) fuel buf radix) = I_from_radix_le dbg w n buf radix.
Proof.
  intros Hw Hb Hf. unfold ParseGen.I_from_radix_le, I_from_radix_le. rewrite option_eta_bind.
  apply gen_from_radix_le; assumption.
Qed.

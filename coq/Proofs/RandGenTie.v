(* Proofs/RandGenTie.v — the tie between the random-sampling functions GENERATED from /repo/src/random.rs on every run
   (Generated/RandGen.v, by tools/rs2v_rand.py) and the hand-written model Model/Random.v the C20 theorems are about.

   Shape of every lemma:   RandGen.f [dbg] w (Z.of_nat n) fuel args [s] = of_outcome / of_rres (<model> args [s])
   for ALL digit widths w, digit counts n, operands of n digits, streams s, both build modes dbg and EVERY budget `fuel`:
   the generated rejection loop and the model's `sample_loop` use up their budgets in lockstep (one unit per draw), so the
   two sides are equal for every fuel, with  NoFuel <-> Random.ROutOfFuel,  Panicked <-> RPanic,  Done None <-> ROutOfStream,
   Done (Some (v, rest)) <-> RVal v rest  (that is `ImpRand.of_rres`, constructor by constructor). *)
From Bnum Require Import Base Prim.
From Bnum.Model Require Import Digit DigitPrims LoopPrims Core Imp ImpRand.
From Bnum.Model Require AddSub Mul Div Bits Shift Cast Convert Ops Random.
From Bnum.Generated Require Import RandGen.
Import Random.

(* ---------- lengths ---------- *)

Lemma add_loop_length w a b c : length a = length b -> length (fst (AddSub.add_loop w a b c)) = length a.
Proof.
  revert b c. induction a as [|x a IH]; intros [|y b] c Hl; try discriminate; [reflexivity|].
  cbn [AddSub.add_loop]. destruct (carrying_add w x y c) as [s c1].
  specialize (IH b c1 ltac:(cbn [length] in Hl; congruence)).
  destruct (AddSub.add_loop w a b c1) as [r cf]. cbn [fst length] in *. congruence.
Qed.

Lemma sub_loop_length w a b c : length a = length b -> length (fst (AddSub.sub_loop w a b c)) = length a.
Proof.
  revert b c. induction a as [|x a IH]; intros [|y b] c Hl; try discriminate; [reflexivity|].
  cbn [AddSub.sub_loop]. destruct (borrowing_sub w x y c) as [s c1].
  specialize (IH b c1 ltac:(cbn [length] in Hl; congruence)).
  destruct (AddSub.sub_loop w a b c1) as [r cf]. cbn [fst length] in *. congruence.
Qed.

Lemma ONE_length n : length (ONE n) = n.
Proof. destruct n as [|k]; [reflexivity|]. cbn [ONE from_digit length]. rewrite repeat_length. reflexivity. Qed.

Lemma range_of_length sg w low high : length high = length low -> length (range_of sg w low high) = length low.
Proof.
  intros Hl. unfold range_of, ty_wrapping_add, ty_wrapping_sub.
  assert (E : length (fst (AddSub.add_loop w (fst (AddSub.sub_loop w high low false)) (ONE (length low)) false)) = length low).
  { rewrite add_loop_length; rewrite sub_loop_length by exact Hl; [exact Hl|]. rewrite ONE_length. exact Hl. }
  destruct sg; exact E.
Qed.

(* ---------- the monad glue ---------- *)

Lemma rbind_ret {A} (x : res (drawn A)) : rbind x (fun a s => Done (Some (a, s))) = x.
Proof. destruct x as [[[a s]|]| |]; reflexivity. Qed.

Lemma bind_of_outcome {A C} (o : outcome A) (k : A -> res C) :
  bind (of_outcome o) k = match o with Ret a => k a | Panic => Panicked end.
Proof. destruct o; reflexivity. Qed.

Lemma of_outcome_obind {A C} (o : outcome A) (f : A -> outcome C) :
  of_outcome (obind o f) = bind (of_outcome o) (fun a => of_outcome (f a)).
Proof. destruct o; reflexivity. Qed.

Lemma bind_done_eta {A} (x : res A) : bind x (fun a => Done a) = x.
Proof. destruct x; reflexivity. Qed.

(* ---------- Standard ---------- *)

Lemma rand_U_standard w n fuel s :
  RandGen.U_standard w (Z.of_nat n) fuel s = of_rres (U_standard w n s).
Proof.
  unfold RandGen.U_standard, rng_fill_digits, U_standard. rewrite Nat2Z.id, repeat_length.
  destruct (try_fill_bytes (BYTES w n) s) as [[bs rest]|]; reflexivity.
Qed.

Lemma rand_I_standard w n fuel s :
  RandGen.I_standard w (Z.of_nat n) fuel s = of_rres (I_standard w n s).
Proof.
  unfold RandGen.I_standard, I_standard. rewrite Nat2Z.id.
  destruct (U_standard w n s) as [a rest| | |]; reflexivity.
Qed.

(* ---------- the rejection loop ---------- *)

(* the loop of `sample` / `sample_single_inclusive` as generated (the signed instance differs by `from_bits`, the identity, and
   I_wrapping_add, which IS U_wrapping_add: convertible) against the model's sample_loop - for every budget *)
Lemma rand_sample_loop sg w n low range zone : length low = n ->
  forall fuel s,
  while_loop (R := drawn (list Z)) fuel (fun _ : stream => true)
    (fun rng =>
       draw_in_loop t rng <- of_rres (Random.U_standard w n rng) ;;
       let v := t in
       let '(lo, hi) := Mul.U_widening_mul w v range in
       if cmp_le (ucmp lo zone) then Done (Return (Some (ty_wrapping_add sg w low hi, rng))) else Done (Continue rng)) s
  = match sample_loop fuel sg w low range zone s with
    | RVal a rest => Done (Returned (Some (a, rest)))
    | RPanic => Panicked
    | ROutOfStream => Done (Returned None)
    | ROutOfFuel => NoFuel
    end.
Proof.
  intros Hl fuel. induction fuel as [|f IH]; intros s; [reflexivity|].
  cbn [while_loop sample_loop]. rewrite Hl.
  destruct (U_standard w n s) as [v rest| | |]; cbn [of_rres rbind_loop]; try reflexivity.
  destruct (Mul.U_widening_mul w v range) as [lo hi].
  destruct (cmp_le (ucmp lo zone)); [reflexivity|]. apply IH.
Qed.

(* the code after the loop: `Exited` is unreachable, `Returned v` is the function's value *)
Lemma rand_after_loop (r : rres (list Z)) :
  bind (match r with
        | RVal a rest => Done (Returned (Some (a, rest)))
        | RPanic => Panicked
        | ROutOfStream => Done (Returned None)
        | ROutOfFuel => NoFuel
        end)
       (fun t : loop_exit stream (drawn (list Z)) => match t with Exited _ => Panicked | Returned v => Done v end)
  = of_rres r.
Proof. destruct r; reflexivity. Qed.

(* ---------- UniformInt::new_inclusive / new ---------- *)

Lemma rand_ints_to_reject dbg w range :
  (t1 <- of_outcome (AddSub.U_sub dbg w (UMAX w (length range)) range) ;;
   t2 <- of_outcome (U_add_digit w t1 1) ;;
   t3 <- of_outcome (Div.U_rem w t2 range) ;; Done t3)
  = of_outcome (ints_to_reject dbg w range).
Proof.
  unfold ints_to_reject.
  destruct (AddSub.U_sub dbg w (UMAX w (length range)) range) as [t1|]; [|reflexivity]. cbn [of_outcome bind obind].
  destruct (U_add_digit w t1 1) as [t2|]; [|reflexivity]. cbn [of_outcome bind obind].
  destruct (Div.U_rem w t2 range); reflexivity.
Qed.

Lemma rand_uniform_new_inclusive_gen sg dbg w n low high : length low = n -> length high = n ->
  (if ty_le sg w low high then
     let range := range_of sg w low high in
     t4 <- (if negb (is_zero range) then
              (t1 <- of_outcome (AddSub.U_sub dbg w (UMAX w n) range) ;;
               t2 <- of_outcome (U_add_digit w t1 1) ;;
               t3 <- of_outcome (Div.U_rem w t2 range) ;; Done t3)
            else Done (ZERO n)) ;;
     let ints_to_reject := t4 in
     Done (mkUniform low range ints_to_reject)
   else Panicked)
  = of_outcome (uniform_new_inclusive sg dbg w low high).
Proof.
  intros Hl Hh. unfold uniform_new_inclusive.
  destruct (ty_le sg w low high); [|reflexivity]. cbn [negb]. cbv zeta.
  assert (Hr : length (range_of sg w low high) = n) by (rewrite range_of_length; congruence).
  set (range := range_of sg w low high) in *. clearbody range.
  destruct (negb (is_zero range)).
  - rewrite <- Hr at 1. rewrite rand_ints_to_reject.
    destruct (ints_to_reject dbg w range); reflexivity.
  - rewrite Hl. reflexivity.
Qed.

Lemma rand_U_uniform_new_inclusive dbg w n fuel low high : length low = n -> length high = n ->
  RandGen.U_uniform_new_inclusive dbg w (Z.of_nat n) fuel low high = of_outcome (U_uniform_new_inclusive dbg w low high).
Proof.
  intros Hl Hh. unfold RandGen.U_uniform_new_inclusive, U_uniform_new_inclusive. rewrite Nat2Z.id.
  rewrite <- (rand_uniform_new_inclusive_gen false dbg w n low high Hl Hh).
  unfold ty_le, range_of, ty_wrapping_add, ty_wrapping_sub. rewrite Hl. reflexivity.
Qed.

Lemma rand_I_uniform_new_inclusive dbg w n fuel low high : length low = n -> length high = n ->
  RandGen.I_uniform_new_inclusive dbg w (Z.of_nat n) fuel low high = of_outcome (I_uniform_new_inclusive dbg w low high).
Proof.
  intros Hl Hh. unfold RandGen.I_uniform_new_inclusive, I_uniform_new_inclusive. rewrite Nat2Z.id.
  rewrite <- (rand_uniform_new_inclusive_gen true dbg w n low high Hl Hh).
  unfold ty_le, range_of, ty_wrapping_add, ty_wrapping_sub, Cast.to_bits, Cast.from_bits. rewrite Hl. reflexivity.
Qed.

Lemma sub_length_U dbg w a b r : length a = length b -> AddSub.U_sub dbg w a b = Ret r -> length r = length a.
Proof.
  intros Hl. unfold AddSub.U_sub, AddSub.U_strict_sub, AddSub.U_checked_sub, AddSub.U_wrapping_sub, AddSub.U_overflowing_sub, option_expect, tuple_to_option.
  pose proof (sub_loop_length w a b false Hl) as E.
  destruct (AddSub.sub_loop w a b false) as [x f]. cbn [fst] in *.
  destruct dbg; [destruct f|]; intros H; inversion H; subst; exact E.
Qed.

Lemma isub_loop_length w a b c : length a = length b -> length (fst (AddSub.isub_loop w a b c)) = length a.
Proof.
  revert b c. induction a as [|x a IH]; intros [|y b] c Hl; try discriminate; [reflexivity|].
  destruct a as [|x' a']; destruct b as [|y' b']; try discriminate.
  - cbn [AddSub.isub_loop]. destruct (borrowing_sub_signed w (sd w x) (sd w y) c). reflexivity.
  - change (AddSub.isub_loop w (x :: x' :: a') (y :: y' :: b') c) with
      (let '(s, c1) := borrowing_sub w x y c in
       let '(r, o) := AddSub.isub_loop w (x' :: a') (y' :: b') c1 in (s :: r, o)).
    destruct (borrowing_sub w x y c) as [s c1].
    specialize (IH (y' :: b') c1 ltac:(cbn [length] in Hl |- *; congruence)).
    destruct (AddSub.isub_loop w (x' :: a') (y' :: b') c1) as [r o]. cbn [fst length] in *. congruence.
Qed.

Lemma sub_length_I dbg w a b r : length a = length b -> AddSub.I_sub dbg w a b = Ret r -> length r = length a.
Proof.
  intros Hl. unfold AddSub.I_sub, AddSub.I_strict_sub, AddSub.I_checked_sub, AddSub.I_wrapping_sub, AddSub.U_wrapping_sub,
    AddSub.I_overflowing_sub, AddSub.U_overflowing_sub, option_expect, tuple_to_option.
  destruct dbg.
  - pose proof (isub_loop_length w a b false Hl) as E.
    destruct (AddSub.isub_loop w a b false) as [x f]. cbn [fst snd] in *.
    destruct f; intros H; inversion H; subst; exact E.
  - pose proof (sub_loop_length w a b false Hl) as E. intros H; inversion H; subst; exact E.
Qed.

Lemma rand_U_uniform_new dbg w n fuel low high : length low = n -> length high = n ->
  RandGen.U_uniform_new dbg w (Z.of_nat n) fuel low high = of_outcome (U_uniform_new dbg w low high).
Proof.
  intros Hl Hh. unfold RandGen.U_uniform_new, U_uniform_new, uniform_new, ty_lt, ty_sub. rewrite Nat2Z.id, Hl.
  destruct (cmp_lt (ucmp low high)); [|reflexivity]. cbn [negb].
  destruct (AddSub.U_sub dbg w high (ONE n)) as [h1|] eqn:E; [|reflexivity]. cbn [of_outcome bind obind].
  rewrite (rand_U_uniform_new_inclusive dbg w n fuel low h1 Hl).
  - apply bind_done_eta.
  - rewrite (sub_length_U dbg w high (ONE n) h1); [exact Hh| rewrite ONE_length; exact Hh | exact E].
Qed.

Lemma rand_I_uniform_new dbg w n fuel low high : length low = n -> length high = n ->
  RandGen.I_uniform_new dbg w (Z.of_nat n) fuel low high = of_outcome (I_uniform_new dbg w low high).
Proof.
  intros Hl Hh. unfold RandGen.I_uniform_new, I_uniform_new, uniform_new, ty_lt, ty_sub, Cast.from_bits. rewrite Nat2Z.id, Hl.
  destruct (cmp_lt (icmp w low high)); [|reflexivity]. cbn [negb].
  destruct (AddSub.I_sub dbg w high (ONE n)) as [h1|] eqn:E; [|reflexivity]. cbn [of_outcome bind obind].
  rewrite (rand_I_uniform_new_inclusive dbg w n fuel low h1 Hl).
  - apply bind_done_eta.
  - rewrite (sub_length_I dbg w high (ONE n) h1); [exact Hh| rewrite ONE_length; exact Hh | exact E].
Qed.

(* ---------- sample_single_inclusive / sample_single ---------- *)

Lemma rand_single_zone dbg w n range : length range = n ->
  (if Bits.bits_of w (UMAX w n) <=? 16 then
     (t2 <- of_outcome (AddSub.U_sub dbg w (UMAX w n) range) ;;
      t3 <- of_outcome (U_add_digit w t2 1) ;;
      t4 <- of_outcome (Div.U_rem w t3 range) ;;
      t5 <- of_outcome (AddSub.U_sub dbg w (UMAX w n) t4) ;; Done t5)
   else
     (t6 <- of_outcome (Shift.U_shl dbg w range (Bits.leading_zeros w range)) ;;
      Done (AddSub.U_wrapping_sub w t6 (ONE n))))
  = of_outcome (single_zone dbg w range).
Proof.
  intros Hr. unfold single_zone. rewrite Hr.
  destruct (Bits.bits_of w (UMAX w n) <=? 16).
  - pose proof (rand_ints_to_reject dbg w range) as E. rewrite Hr in E.
    rewrite of_outcome_obind, <- E.
    destruct (AddSub.U_sub dbg w (UMAX w n) range) as [t2|]; [|reflexivity]. cbn [of_outcome bind].
    destruct (U_add_digit w t2 1) as [t3|]; [|reflexivity]. cbn [of_outcome bind].
    destruct (Div.U_rem w t3 range) as [t4|]; [|reflexivity]. cbn [of_outcome bind].
    destruct (AddSub.U_sub dbg w (UMAX w n) t4); reflexivity.
  - destruct (Shift.U_shl dbg w range (Bits.leading_zeros w range)); reflexivity.
Qed.

Lemma rand_sample_single_inclusive_gen sg dbg w n fuel low high s : length low = n -> length high = n ->
  (if ty_le sg w low high then
     let range := range_of sg w low high in
     if is_zero range then
       draw t1 rng <- of_rres (ty_standard sg w n s) ;; Done (Some (t1, rng))
     else
       t7 <- (if Bits.bits_of w (UMAX w n) <=? 16 then
                (t2 <- of_outcome (AddSub.U_sub dbg w (UMAX w n) range) ;;
                 t3 <- of_outcome (U_add_digit w t2 1) ;;
                 t4 <- of_outcome (Div.U_rem w t3 range) ;;
                 let ints_to_reject := t4 in
                 t5 <- of_outcome (AddSub.U_sub dbg w (UMAX w n) ints_to_reject) ;; Done t5)
              else
                (t6 <- of_outcome (Shift.U_shl dbg w range (Bits.leading_zeros w range)) ;;
                 Done (AddSub.U_wrapping_sub w t6 (ONE n)))) ;;
       let zone := t7 in
       t9 <- while_loop (R := drawn (list Z)) fuel (fun _ : stream => true)
               (fun rng =>
                  draw_in_loop t8 rng <- of_rres (Random.U_standard w n rng) ;;
                  let v := t8 in
                  let '(lo, hi) := Mul.U_widening_mul w v range in
                  if cmp_le (ucmp lo zone) then Done (Return (Some (ty_wrapping_add sg w low hi, rng)))
                  else Done (Continue rng)) s ;;
       match t9 with
       | Exited _ => Panicked
       | Returned t10 => Done t10
       end
   else Panicked)
  = of_rres (sample_single_inclusive fuel sg dbg w low high s).
Proof.
  intros Hl Hh. unfold sample_single_inclusive.
  destruct (ty_le sg w low high); [|reflexivity]. cbn [negb]. cbv zeta.
  assert (Hr : length (range_of sg w low high) = n) by (rewrite range_of_length; congruence).
  set (range := range_of sg w low high) in *. clearbody range.
  destruct (is_zero range).
  - rewrite rbind_ret, Hl. reflexivity.
  - rewrite (rand_single_zone dbg w n range Hr).
    destruct (single_zone dbg w range) as [zone|]; [|reflexivity]. cbn [of_outcome bind].
    rewrite (rand_sample_loop sg w n low range zone Hl). apply rand_after_loop.
Qed.

Lemma rand_U_sample_single_inclusive dbg w n fuel low high s : length low = n -> length high = n ->
  RandGen.U_sample_single_inclusive dbg w (Z.of_nat n) fuel low high s
  = of_rres (U_sample_single_inclusive fuel dbg w low high s).
Proof.
  intros Hl Hh. unfold RandGen.U_sample_single_inclusive, U_sample_single_inclusive. rewrite Nat2Z.id.
  rewrite <- (rand_sample_single_inclusive_gen false dbg w n fuel low high s Hl Hh).
  unfold ty_le, ty_standard, range_of, ty_wrapping_add, ty_wrapping_sub. rewrite Hl. reflexivity.
Qed.

Lemma rand_I_sample_single_inclusive dbg w n fuel low high s : length low = n -> length high = n ->
  RandGen.I_sample_single_inclusive dbg w (Z.of_nat n) fuel low high s
  = of_rres (I_sample_single_inclusive fuel dbg w low high s).
Proof.
  intros Hl Hh. unfold RandGen.I_sample_single_inclusive, I_sample_single_inclusive. rewrite Nat2Z.id.
  rewrite <- (rand_sample_single_inclusive_gen true dbg w n fuel low high s Hl Hh).
  unfold ty_le, ty_standard, range_of, ty_wrapping_add, ty_wrapping_sub, Cast.to_bits, Cast.from_bits. rewrite Hl. reflexivity.
Qed.

Lemma rbind_of_rres_ret {A} (r : rres A) : rbind (of_rres r) (fun a s => Done (Some (a, s))) = of_rres r.
Proof. apply rbind_ret. Qed.

Lemma rand_U_sample_single dbg w n fuel low high s : length low = n -> length high = n ->
  RandGen.U_sample_single dbg w (Z.of_nat n) fuel low high s = of_rres (U_sample_single fuel dbg w low high s).
Proof.
  intros Hl Hh. unfold RandGen.U_sample_single, U_sample_single, sample_single, ty_lt, ty_sub. rewrite Nat2Z.id, Hl.
  destruct (cmp_lt (ucmp low high)); [|reflexivity]. cbn [negb].
  destruct (AddSub.U_sub dbg w high (ONE n)) as [h1|] eqn:E; [|reflexivity]. cbn [of_outcome bind].
  rewrite (rand_U_sample_single_inclusive dbg w n fuel low h1 s Hl).
  - apply rbind_ret.
  - rewrite (sub_length_U dbg w high (ONE n) h1); [exact Hh| rewrite ONE_length; exact Hh | exact E].
Qed.

Lemma rand_I_sample_single dbg w n fuel low high s : length low = n -> length high = n ->
  RandGen.I_sample_single dbg w (Z.of_nat n) fuel low high s = of_rres (I_sample_single fuel dbg w low high s).
Proof.
  intros Hl Hh. unfold RandGen.I_sample_single, I_sample_single, sample_single, ty_lt, ty_sub, Cast.from_bits. rewrite Nat2Z.id, Hl.
  destruct (cmp_lt (icmp w low high)); [|reflexivity]. cbn [negb].
  destruct (AddSub.I_sub dbg w high (ONE n)) as [h1|] eqn:E; [|reflexivity]. cbn [of_outcome bind].
  rewrite (rand_I_sample_single_inclusive dbg w n fuel low h1 s Hl).
  - apply rbind_ret.
  - rewrite (sub_length_I dbg w high (ONE n) h1); [exact Hh| rewrite ONE_length; exact Hh | exact E].
Qed.

(* ---------- UniformInt::sample ---------- *)

Lemma rand_uniform_sample_gen sg dbg w n fuel u s : length (u_low u) = n -> length (u_range u) = n ->
  (let range := u_range u in
   if negb (is_zero range) then
     t1 <- of_outcome (AddSub.U_sub dbg w (UMAX w n) (u_z u)) ;;
     let zone := t1 in
     t3 <- while_loop (R := drawn (list Z)) fuel (fun _ : stream => true)
             (fun rng =>
                draw_in_loop t2 rng <- of_rres (Random.U_standard w n rng) ;;
                let v := t2 in
                let '(lo, hi) := Mul.U_widening_mul w v range in
                if cmp_le (ucmp lo zone) then Done (Return (Some (ty_wrapping_add sg w (u_low u) hi, rng)))
                else Done (Continue rng)) s ;;
     match t3 with
     | Exited _ => Panicked
     | Returned t4 => Done t4
     end
   else
     draw t5 rng <- of_rres (ty_standard sg w n s) ;; Done (Some (t5, rng)))
  = of_rres (uniform_sample fuel sg dbg w u s).
Proof.
  intros Hl Hr. unfold uniform_sample. cbv zeta. rewrite Hr, Hl.
  destruct (negb (is_zero (u_range u))).
  - destruct (AddSub.U_sub dbg w (UMAX w n) (u_z u)) as [zone|]; [|reflexivity]. cbn [of_outcome bind].
    rewrite (rand_sample_loop sg w n (u_low u) (u_range u) zone Hl). apply rand_after_loop.
  - apply rbind_ret.
Qed.

Lemma rand_U_uniform_sample dbg w n fuel u s : length (u_low u) = n -> length (u_range u) = n ->
  RandGen.U_uniform_sample dbg w (Z.of_nat n) fuel u s = of_rres (uniform_sample fuel false dbg w u s).
Proof.
  intros Hl Hr. unfold RandGen.U_uniform_sample. rewrite Nat2Z.id.
  rewrite <- (rand_uniform_sample_gen false dbg w n fuel u s Hl Hr). reflexivity.
Qed.

Lemma rand_I_uniform_sample dbg w n fuel u s : length (u_low u) = n -> length (u_range u) = n ->
  RandGen.I_uniform_sample dbg w (Z.of_nat n) fuel u s = of_rres (uniform_sample fuel true dbg w u s).
Proof.
  intros Hl Hr. unfold RandGen.I_uniform_sample. rewrite Nat2Z.id.
  rewrite <- (rand_uniform_sample_gen true dbg w n fuel u s Hl Hr). reflexivity.
Qed.

(* ---------- the `+ 1` of `MAX - range + 1` ---------- *)

(* Model/Random.v keeps its own copy of `impl Add<$Digit> for $BUint<N>` (Panic for N = 0).  The copy the loop translator's
   `Loops.add_digit` is tied to (Proofs/LoopsTieC01.v: loops_add_digit) is Ops.U_Add_digit: the two agree on every non-empty operand,
   which closes the chain source -> Loops.add_digit -> Ops.U_Add_digit = Random.U_add_digit for the call in the generated code. *)
Lemma rand_add_digit_carry_is_Ops w ds c : add_digit_carry w ds c = Ops.add_digit_carry w ds c.
Proof.
  revert c. induction ds as [|d r IH]; intros c; [reflexivity|]. cbn [add_digit_carry Ops.add_digit_carry].
  destruct c; [|reflexivity]. destruct (u_ovf_add w d 1) as [s c']. rewrite IH. reflexivity.
Qed.

Lemma rand_add_digit_is_Ops w a d : a <> [] -> U_add_digit w a d = Ret (Ops.U_Add_digit w a d).
Proof.
  destruct a as [|x r]; [congruence|]. intros _. cbn [U_add_digit Ops.U_Add_digit].
  destruct (carrying_add w x d false) as [s c]. rewrite rand_add_digit_carry_is_Ops. reflexivity.
Qed.

(* ---------- all of it ---------- *)

Theorem rand_C20_match_model : forall (dbg : bool) (w : Z) (n fuel : nat) (low high : list Z) (u : uniform) (s : stream),
  length low = n -> length high = n -> length (u_low u) = n -> length (u_range u) = n ->
  let N := Z.of_nat n in
  RandGen.U_standard w N fuel s = of_rres (U_standard w n s) /\
  RandGen.I_standard w N fuel s = of_rres (I_standard w n s) /\
  RandGen.U_uniform_new_inclusive dbg w N fuel low high = of_outcome (U_uniform_new_inclusive dbg w low high) /\
  RandGen.I_uniform_new_inclusive dbg w N fuel low high = of_outcome (I_uniform_new_inclusive dbg w low high) /\
  RandGen.U_uniform_new dbg w N fuel low high = of_outcome (U_uniform_new dbg w low high) /\
  RandGen.I_uniform_new dbg w N fuel low high = of_outcome (I_uniform_new dbg w low high) /\
  RandGen.U_uniform_sample dbg w N fuel u s = of_rres (uniform_sample fuel false dbg w u s) /\
  RandGen.I_uniform_sample dbg w N fuel u s = of_rres (uniform_sample fuel true dbg w u s) /\
  RandGen.U_sample_single_inclusive dbg w N fuel low high s = of_rres (U_sample_single_inclusive fuel dbg w low high s) /\
  RandGen.I_sample_single_inclusive dbg w N fuel low high s = of_rres (I_sample_single_inclusive fuel dbg w low high s) /\
  RandGen.U_sample_single dbg w N fuel low high s = of_rres (U_sample_single fuel dbg w low high s) /\
  RandGen.I_sample_single dbg w N fuel low high s = of_rres (I_sample_single fuel dbg w low high s).
Proof.
  intros dbg w n fuel low high u s Hl Hh Hul Hur N. subst N.
  repeat split.
  - apply rand_U_standard.
  - apply rand_I_standard.
  - apply rand_U_uniform_new_inclusive; assumption.
  - apply rand_I_uniform_new_inclusive; assumption.
  - apply rand_U_uniform_new; assumption.
  - apply rand_I_uniform_new; assumption.
  - apply rand_U_uniform_sample; assumption.
  - apply rand_I_uniform_sample; assumption.
  - apply rand_U_sample_single_inclusive; assumption.
  - apply rand_I_sample_single_inclusive; assumption.
  - apply rand_U_sample_single; assumption.
  - apply rand_I_sample_single; assumption.
Qed.

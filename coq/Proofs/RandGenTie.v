(* placeholder *)

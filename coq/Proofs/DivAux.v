(* Proofs/DivAux.v — facts used by the C03 (division) proofs that are not specific to division:
   bit-or as addition, carry/borrow chains of Model/AddSub.v, zero test, comparison, constants,
   windows (firstn/skipn) of digit lists. *)
From Bnum Require Import Base Prim.
From Bnum.Model Require Import Digit Core Shift AddSub.

Definition bz (b : bool) : Z := if b then 1 else 0.

(* ---------- powers ---------- *)

Lemma pow2_pos k : 0 <= k -> 0 < 2 ^ k.
Proof. intros; apply Z.pow_pos_nonneg; lia. Qed.

Lemma pow2_split a b : 0 <= a -> 0 <= b -> 2 ^ (a + b) = 2 ^ a * 2 ^ b.
Proof. intros; apply Z.pow_add_r; lia. Qed.

Lemma B_split w s : 0 <= s <= w -> B w = 2 ^ (w - s) * 2 ^ s.
Proof. intros; unfold B. rewrite <- Z.pow_add_r by lia. f_equal; lia. Qed.

Lemma B_half w : 0 < w -> B w = 2 * 2 ^ (w - 1).
Proof. intros. rewrite (B_split w 1) by lia. change (2 ^ 1) with 2. lia. Qed.

Lemma Mod_1 w : 0 <= w -> Mod w 1 = B w.
Proof. intros. rewrite Mod_S, Mod_0 by lia. lia. Qed.

Lemma Mod_add w a b : 0 <= w -> Mod w (a + b) = Mod w a * Mod w b.
Proof.
  intros. unfold Mod. rewrite <- Z.pow_add_r by lia. f_equal. lia.
Qed.

Lemma Mod_le w a b : 0 <= w -> (a <= b)%nat -> Mod w a <= Mod w b.
Proof.
  intros. unfold Mod. apply Z.pow_le_mono_r; nia.
Qed.

Lemma Mod_ge_1 w n : 0 <= w -> 1 <= Mod w n.
Proof. intros. pose proof (Mod_pos w n H). lia. Qed.

(* ---------- or as addition ---------- *)

Lemma lor_add_shifted h l k : 0 <= k -> 0 <= l < 2 ^ k -> Z.lor (h * 2 ^ k) l = h * 2 ^ k + l.
Proof.
  intros Hk Hl.
  assert (Hland : Z.land (h * 2 ^ k) l = 0).
  { apply Z.bits_inj'. intros i Hi. rewrite Z.land_spec, Z.bits_0.
    destruct (Z.lt_ge_cases i k).
    - rewrite Z.mul_pow2_bits_low by lia. reflexivity.
    - rewrite <- (Z.mod_small l (2 ^ k)) by lia.
      rewrite Z.mod_pow2_bits_high by lia. apply andb_false_r. }
  rewrite <- Z.lxor_lor by exact Hland. symmetry. apply Z.add_nocarry_lxor. exact Hland.
Qed.

Lemma lor_add_shifted' h l k : 0 <= k -> 0 <= l < 2 ^ k -> Z.lor l (h * 2 ^ k) = h * 2 ^ k + l.
Proof. intros. rewrite Z.lor_comm. apply lor_add_shifted; auto. Qed.

Lemma shl_mod w d s : 0 <= s <= w -> (d * 2 ^ s) mod B w = (d mod 2 ^ (w - s)) * 2 ^ s.
Proof.
  intros. rewrite (B_split w s) by lia.
  apply Z.mul_mod_distr_r; [pose proof (pow2_pos (w - s)); lia | pose proof (pow2_pos s); lia].
Qed.

Lemma to_double_digit_val w low high : 0 <= w -> 0 <= low < B w ->
  to_double_digit w low high = low + B w * high.
Proof.
  intros. unfold to_double_digit, B in *. rewrite lor_add_shifted by lia. lia.
Qed.

(* ---------- mod by cases ---------- *)

Lemma mod_carry M z : 0 < M -> 0 <= z < 2 * M -> z mod M = if M <=? z then z - M else z.
Proof.
  intros. destruct (Z.leb_spec M z).
  - replace z with ((z - M) + 1 * M) at 1 by lia. rewrite Z_mod_plus_full. apply Z.mod_small; lia.
  - apply Z.mod_small; lia.
Qed.

Lemma mod_borrow M z : 0 < M -> - M <= z < M -> z mod M = if z <? 0 then z + M else z.
Proof.
  intros. destruct (Z.ltb_spec z 0).
  - replace z with ((z + M) + (-1) * M) at 1 by lia. rewrite Z_mod_plus_full. apply Z.mod_small; lia.
  - apply Z.mod_small; lia.
Qed.

(* ---------- digit-level carry / borrow ---------- *)

Lemma carrying_add_spec w x y c s co : 0 <= w -> digit_ok w x -> digit_ok w y ->
  carrying_add w x y c = (s, co) ->
  digit_ok w s /\ s + bz co * B w = x + y + bz c.
Proof.
  intros Hw Hx Hy. unfold digit_ok in *. pose proof (B_pos w Hw) as HB.
  unfold carrying_add, u_ovf_add.
  rewrite (mod_carry (B w) (x + y)) by lia.
  destruct c; cbn [bz].
  - destruct (Z.leb_spec (B w) (x + y)).
    + rewrite (mod_carry (B w)) by lia. intros E; inversion E; subst; clear E.
      destruct (Z.leb_spec (B w) (x + y - B w + 1)); cbn [orb bz]; lia.
    + rewrite (mod_carry (B w)) by lia. intros E; inversion E; subst; clear E.
      destruct (Z.leb_spec (B w) (x + y + 1)); cbn [orb bz]; lia.
  - intros E; inversion E; subst; clear E.
    destruct (Z.leb_spec (B w) (x + y)); cbn [bz]; lia.
Qed.

Lemma borrowing_sub_spec w x y c s co : 0 <= w -> digit_ok w x -> digit_ok w y ->
  borrowing_sub w x y c = (s, co) ->
  digit_ok w s /\ s - bz co * B w = x - y - bz c.
Proof.
  intros Hw Hx Hy. unfold digit_ok in *. pose proof (B_pos w Hw) as HB.
  unfold borrowing_sub, u_ovf_sub.
  rewrite (mod_borrow (B w) (x - y)) by lia.
  destruct c; cbn [bz].
  - destruct (Z.ltb_spec (x - y) 0).
    + rewrite (mod_borrow (B w)) by lia. intros E; inversion E; subst; clear E.
      destruct (Z.ltb_spec x y); destruct (Z.ltb_spec (x - y + B w) 1);
        destruct (Z.ltb_spec (x - y + B w - 1) 0); cbn [orb bz]; lia.
    + rewrite (mod_borrow (B w)) by lia. intros E; inversion E; subst; clear E.
      destruct (Z.ltb_spec x y); destruct (Z.ltb_spec (x - y) 1);
        destruct (Z.ltb_spec (x - y - 1) 0); cbn [orb bz]; lia.
  - intros E; inversion E; subst; clear E.
    destruct (Z.ltb_spec (x - y) 0); destruct (Z.ltb_spec x y); cbn [bz]; lia.
Qed.

(* ---------- chains ---------- *)

Lemma add_loop_spec w : 0 <= w -> forall n a b c r co, wf w n a -> wf w n b ->
  add_loop w a b c = (r, co) ->
  wf w n r /\ uval w r + bz co * Mod w n = uval w a + uval w b + bz c.
Proof.
  intros Hw. induction n as [|n IH]; intros a b c r co Ha Hb E.
  - apply wf_inv_0 in Ha, Hb; subst. cbn in E. inversion E; subst.
    split; [apply wf_nil|]. rewrite Mod_0. cbn [uval]. lia.
  - destruct (wf_inv_S _ _ _ Ha) as (x & a' & -> & Hx & Ha').
    destruct (wf_inv_S _ _ _ Hb) as (y & b' & -> & Hy & Hb').
    cbn [add_loop] in E.
    destruct (carrying_add w x y c) as [s c1] eqn:E1.
    destruct (add_loop w a' b' c1) as [r' cf] eqn:E2.
    inversion E; subst; clear E.
    destruct (carrying_add_spec _ _ _ _ _ _ Hw Hx Hy E1) as [Hs Hv1].
    destruct (IH _ _ _ _ _ Ha' Hb' E2) as [Hr Hv2].
    split; [apply wf_cons; auto|].
    rewrite Mod_S by lia. cbn [uval]. nia.
Qed.

Lemma sub_loop_spec w : 0 <= w -> forall n a b c r co, wf w n a -> wf w n b ->
  sub_loop w a b c = (r, co) ->
  wf w n r /\ uval w r - bz co * Mod w n = uval w a - uval w b - bz c.
Proof.
  intros Hw. induction n as [|n IH]; intros a b c r co Ha Hb E.
  - apply wf_inv_0 in Ha, Hb; subst. cbn in E. inversion E; subst.
    split; [apply wf_nil|]. rewrite Mod_0. cbn [uval]. lia.
  - destruct (wf_inv_S _ _ _ Ha) as (x & a' & -> & Hx & Ha').
    destruct (wf_inv_S _ _ _ Hb) as (y & b' & -> & Hy & Hb').
    cbn [sub_loop] in E.
    destruct (borrowing_sub w x y c) as [s c1] eqn:E1.
    destruct (sub_loop w a' b' c1) as [r' cf] eqn:E2.
    inversion E; subst; clear E.
    destruct (borrowing_sub_spec _ _ _ _ _ _ Hw Hx Hy E1) as [Hs Hv1].
    destruct (IH _ _ _ _ _ Ha' Hb' E2) as [Hr Hv2].
    split; [apply wf_cons; auto|].
    rewrite Mod_S by lia. cbn [uval]. nia.
Qed.

(* closed forms *)
Lemma add_chain_closed M r co s : 0 < M -> 0 <= r < M -> r + bz co * M = s ->
  r = s mod M /\ co = (M <=? s).
Proof.
  intros HM Hr E. destruct co; cbn [bz] in E.
  - split; [|symmetry; apply Z.leb_le; lia].
    replace s with (r + 1 * M) by lia. rewrite Z_mod_plus_full, Z.mod_small; lia.
  - split; [|symmetry; apply Z.leb_gt; lia].
    rewrite Z.mod_small; lia.
Qed.

Lemma sub_chain_closed M r co s : 0 < M -> 0 <= r < M -> r - bz co * M = s ->
  r = s mod M /\ co = (s <? 0).
Proof.
  intros HM Hr E. destruct co; cbn [bz] in E.
  - split; [|symmetry; apply Z.ltb_lt; lia].
    replace s with (r + (-1) * M) by lia. rewrite Z_mod_plus_full, Z.mod_small; lia.
  - split; [|symmetry; apply Z.ltb_ge; lia].
    rewrite Z.mod_small; lia.
Qed.

Lemma U_overflowing_add_spec w n a b : 0 <= w -> wf w n a -> wf w n b ->
  wf w n (fst (U_overflowing_add w a b)) /\
  uval w (fst (U_overflowing_add w a b)) = (uval w a + uval w b) mod Mod w n /\
  snd (U_overflowing_add w a b) = (Mod w n <=? uval w a + uval w b).
Proof.
  intros Hw Ha Hb. unfold U_overflowing_add.
  destruct (add_loop w a b false) as [r co] eqn:E.
  destruct (add_loop_spec w Hw _ _ _ _ _ _ Ha Hb E) as [Hr Hv]. cbn [fst snd bz] in *.
  split; [exact Hr|].
  apply add_chain_closed; [apply Mod_pos; lia | apply uval_bounds; auto | lia].
Qed.

Lemma U_overflowing_sub_spec w n a b : 0 <= w -> wf w n a -> wf w n b ->
  wf w n (fst (U_overflowing_sub w a b)) /\
  uval w (fst (U_overflowing_sub w a b)) = (uval w a - uval w b) mod Mod w n /\
  snd (U_overflowing_sub w a b) = (uval w a <? uval w b).
Proof.
  intros Hw Ha Hb. unfold U_overflowing_sub.
  destruct (sub_loop w a b false) as [r co] eqn:E.
  destruct (sub_loop_spec w Hw _ _ _ _ _ _ Ha Hb E) as [Hr Hv]. cbn [fst snd bz] in *.
  split; [exact Hr|].
  destruct (sub_chain_closed (Mod w n) (uval w r) co (uval w a - uval w b)) as [H1 H2];
    [apply Mod_pos; lia | apply uval_bounds; auto | lia |].
  split; [exact H1|]. rewrite H2.
  destruct (Z.ltb_spec (uval w a - uval w b) 0); destruct (Z.ltb_spec (uval w a) (uval w b)); lia.
Qed.

(* ---------- constants ---------- *)

Lemma uval_repeat0 w k : uval w (repeat 0 k) = 0.
Proof. induction k; cbn [repeat uval]; [reflexivity | rewrite IHk; lia]. Qed.

Lemma wf_repeat w k d : digit_ok w d -> wf w k (repeat d k).
Proof.
  intros. split; [apply repeat_length|]. apply Forall_forall. intros x Hx.
  apply repeat_spec in Hx. subst; auto.
Qed.

Lemma digit_ok_0 w : 0 <= w -> digit_ok w 0.
Proof. intros; unfold digit_ok. pose proof (B_pos w H). lia. Qed.

Lemma wf_ZERO w n : 0 <= w -> wf w n (ZERO n).
Proof. intros. apply wf_repeat. apply digit_ok_0; auto. Qed.

Lemma uval_ZERO w n : uval w (ZERO n) = 0.
Proof. apply uval_repeat0. Qed.

Lemma wf_from_digit w n d : 0 <= w -> digit_ok w d -> wf w n (from_digit n d).
Proof.
  intros. destruct n; [apply wf_nil|]. cbn [from_digit]. apply wf_cons. split; auto.
  apply wf_repeat. apply digit_ok_0; auto.
Qed.

Lemma uval_from_digit w n d : (0 < n)%nat -> uval w (from_digit n d) = d.
Proof.
  intros. destruct n; [lia|]. cbn [from_digit uval]. rewrite uval_repeat0. lia.
Qed.

Lemma wf_ONE w n : 0 < w -> wf w n (ONE n).
Proof.
  intros. apply wf_from_digit; [lia|]. unfold digit_ok. pose proof (B_ge_2 w H). lia.
Qed.

Lemma uval_ONE w n : (0 < n)%nat -> uval w (ONE n) = 1.
Proof. apply uval_from_digit. Qed.

(* ---------- zero test, equality, comparison ---------- *)

Lemma is_zero_spec w n ds : 0 <= w -> wf w n ds -> is_zero ds = (uval w ds =? 0).
Proof.
  intros Hw. revert ds. induction n as [|n IH]; intros ds H.
  - apply wf_inv_0 in H; subst. reflexivity.
  - destruct (wf_inv_S _ _ _ H) as (d & r & -> & Hd & Hr).
    cbn [is_zero uval]. rewrite (IH _ Hr).
    pose proof (uval_bounds w n r Hw Hr). pose proof (B_pos w Hw). unfold digit_ok in Hd.
    destruct (Z.eqb_spec d 0); destruct (Z.eqb_spec (uval w r) 0);
      destruct (Z.eqb_spec (d + B w * uval w r) 0); try reflexivity; nia.
Qed.

Lemma is_zero_true w n ds : 0 <= w -> wf w n ds -> (is_zero ds = true <-> uval w ds = 0).
Proof. intros. rewrite (is_zero_spec w n) by auto. apply Z.eqb_eq. Qed.

Lemma is_zero_false w n ds : 0 <= w -> wf w n ds -> (is_zero ds = false <-> uval w ds <> 0).
Proof. intros. rewrite (is_zero_spec w n) by auto. apply Z.eqb_neq. Qed.

Lemma ucmp_spec w n a b : 0 <= w -> wf w n a -> wf w n b ->
  ucmp a b = (uval w a ?= uval w b).
Proof.
  intros Hw. revert a b. induction n as [|n IH]; intros a b Ha Hb.
  - apply wf_inv_0 in Ha, Hb; subst. reflexivity.
  - destruct (wf_inv_S _ _ _ Ha) as (x & a' & -> & Hx & Ha').
    destruct (wf_inv_S _ _ _ Hb) as (y & b' & -> & Hy & Hb').
    cbn [ucmp uval]. rewrite (IH _ _ Ha' Hb').
    pose proof (B_pos w Hw). unfold digit_ok in *.
    destruct (Z.compare_spec (uval w a') (uval w b')) as [E|E|E].
    + rewrite E. destruct (Z.ltb_spec y x); [symmetry; apply Z.compare_gt_iff; lia|].
      destruct (Z.ltb_spec x y); [symmetry; apply Z.compare_lt_iff; lia|].
      symmetry; apply Z.compare_eq_iff; lia.
    + symmetry; apply Z.compare_lt_iff; nia.
    + symmetry; apply Z.compare_gt_iff; nia.
Qed.

Lemma digit_pair_inj Bw x y p q : 0 < Bw -> 0 <= x < Bw -> 0 <= y < Bw ->
  x + Bw * p = y + Bw * q -> x = y /\ p = q.
Proof.
  intros HB Hx Hy E. set (k := p - q). assert (Hk : x - y + Bw * k = 0) by (unfold k; lia).
  assert (k = 0) by nia. unfold k in *. lia.
Qed.

Lemma eq_digits_spec w n a b : 0 <= w -> wf w n a -> wf w n b ->
  eq_digits a b = (uval w a =? uval w b).
Proof.
  intros Hw. revert a b. induction n as [|n IH]; intros a b Ha Hb.
  - apply wf_inv_0 in Ha, Hb; subst. reflexivity.
  - destruct (wf_inv_S _ _ _ Ha) as (x & a' & -> & Hx & Ha').
    destruct (wf_inv_S _ _ _ Hb) as (y & b' & -> & Hy & Hb').
    cbn [eq_digits uval]. rewrite (IH _ _ Ha' Hb').
    pose proof (B_pos w Hw). unfold digit_ok in *.
    destruct (Z.eqb_spec (x + B w * uval w a') (y + B w * uval w b')) as [E|E].
    + destruct (digit_pair_inj _ _ _ _ _ H Hx Hy E) as [-> ->]. rewrite !Z.eqb_refl. reflexivity.
    + destruct (Z.eqb_spec x y); destruct (Z.eqb_spec (uval w a') (uval w b')); try reflexivity.
      subst. congruence.
Qed.

Lemma is_one_spec w n ds : 0 < w -> wf w n ds -> is_one ds = (uval w ds =? 1).
Proof.
  intros Hw0 H. assert (Hw : 0 <= w) by lia. pose proof (B_ge_2 w Hw0). destruct n.
  - apply wf_inv_0 in H; subst. reflexivity.
  - destruct (wf_inv_S _ _ _ H) as (d & r & -> & Hd & Hr).
    cbn [is_one uval]. rewrite (is_zero_spec w n r Hw Hr).
    pose proof (uval_bounds w n r Hw Hr). pose proof (B_pos w Hw). unfold digit_ok in Hd.
    destruct (Z.eqb_spec d 1); destruct (Z.eqb_spec (uval w r) 0);
      destruct (Z.eqb_spec (d + B w * uval w r) 1); try reflexivity; nia.
Qed.

(* ---------- windows ---------- *)

Lemma Forall_firstn {A} (P : A -> Prop) k l : Forall P l -> Forall P (firstn k l).
Proof.
  revert l; induction k; intros l H; cbn [firstn]; [constructor|].
  destruct l; [constructor|]. inversion H; subst. constructor; auto.
Qed.

Lemma Forall_skipn {A} (P : A -> Prop) k l : Forall P l -> Forall P (skipn k l).
Proof.
  revert l; induction k; intros l H; cbn [skipn]; [exact H|].
  destruct l; [constructor|]. inversion H; subst. auto.
Qed.

Lemma wf_firstn w n k ds : wf w n ds -> (k <= n)%nat -> wf w k (firstn k ds).
Proof.
  intros [Hl Hf] Hk. split; [rewrite firstn_length; lia | apply Forall_firstn; auto].
Qed.

Lemma wf_skipn w n k ds : wf w n ds -> wf w (n - k) (skipn k ds).
Proof.
  intros [Hl Hf]. split; [rewrite skipn_length; lia | apply Forall_skipn; auto].
Qed.

Lemma uval_split w k ds : 0 <= w -> (k <= length ds)%nat ->
  uval w ds = uval w (firstn k ds) + Mod w k * uval w (skipn k ds).
Proof.
  intros Hw Hk. rewrite <- (firstn_skipn k ds) at 1. rewrite uval_app by auto.
  rewrite firstn_length. replace (Nat.min k (length ds)) with k by lia. reflexivity.
Qed.

Lemma wf_forall_app w a b : wf w (length a + length b) (a ++ b) -> wf w (length a) a /\ wf w (length b) b.
Proof.
  intros [_ Hf]. apply Forall_app in Hf. destruct Hf. split; split; auto.
Qed.

Lemma uval_zero_all w n ds : 0 <= w -> wf w n ds -> uval w ds = 0 -> ds = repeat 0 n.
Proof.
  intros Hw H E. apply (uval_inj w n); auto.
  - apply wf_repeat. apply digit_ok_0; auto.
  - rewrite uval_repeat0. exact E.
Qed.

(* a value below B^k lives in the first k digits *)
Lemma uval_firstn_small w n k ds : 0 <= w -> wf w n ds -> (k <= n)%nat -> uval w ds < Mod w k ->
  uval w (firstn k ds) = uval w ds /\ uval w (skipn k ds) = 0.
Proof.
  intros Hw H Hk Hlt. pose proof (wf_length _ _ _ H) as Hl.
  pose proof (uval_split w k ds Hw ltac:(lia)) as Hs.
  pose proof (uval_bounds w k _ Hw (wf_firstn _ _ _ _ H Hk)).
  pose proof (uval_bounds w _ _ Hw (wf_skipn _ _ k _ H)).
  pose proof (Mod_pos w k Hw).
  assert (uval w (skipn k ds) = 0) by nia. split; [nia | auto].
Qed.

Lemma nth_firstn_skipn {A} (l : list A) i d : (i < length l)%nat ->
  l = firstn i l ++ nth i l d :: skipn (S i) l.
Proof.
  revert l; induction i; intros l H; destruct l; cbn [length] in H; try lia.
  - reflexivity.
  - cbn [firstn nth skipn app]. f_equal. apply IHi. lia.
Qed.

(* Proofs/PowDeps.v — what the C08 proofs (pow, ilog) need from the rest of the model.
   * mul_spec / div_spec / div_digit_spec: correctness of long_mul, U_div_rem_unchecked and
     div_rem_digit.  They are proved by the C02 / C03 branches; here they are plain
     Definitions of Prop used as PREMISES of the C08 theorems (no axioms).
   * small facts proved here: constants, is_zero, ucmp, is_negative, icmp, wrapping_neg,
     unsigned_abs, bits_of. *)
From Bnum Require Import Base Prim.
From Bnum.Model Require Import Digit Core Shift AddSub Mul Div Bits Pow.

Definition mul_spec : Prop := forall w n a b, 0 < w -> wf w n a -> wf w n b ->
  let '(r, f) := long_mul w a b in
  wf w n r /\ uval w r = (uval w a * uval w b) mod Mod w n /\ f = (Mod w n <=? uval w a * uval w b).

Definition div_spec : Prop := forall w n a b, 0 < w -> wf w n a -> wf w n b -> uval w b <> 0 ->
  let '(q, r) := U_div_rem_unchecked w a b in
  wf w n q /\ wf w n r /\ uval w a = uval w q * uval w b + uval w r /\ 0 <= uval w r < uval w b.

Definition div_digit_spec : Prop := forall w n a d, 0 < w -> wf w n a -> 0 < d < B w ->
  let '(q, r) := div_rem_digit w a d in
  wf w n q /\ uval w a = uval w q * d + r /\ 0 <= r < d.

(* ---------- constants ---------- *)

Lemma Mod_ge_2 w n : 0 < w -> (0 < n)%nat -> 2 <= Mod w n.
Proof.
  intros Hw Hn. destruct n as [|n]; [lia|]. rewrite Mod_S by lia.
  pose proof (B_ge_2 w Hw). pose proof (Mod_pos w n ltac:(lia)). nia.
Qed.

Lemma B_even w : 0 < w -> B w = 2 * (B w / 2).
Proof.
  intros Hw. unfold B. replace w with (1 + (w - 1)) at 1 by lia.
  rewrite Z.pow_add_r by lia. change (2 ^ 1) with 2.
  replace w with (1 + (w - 1)) at 2 by lia.
  rewrite Z.pow_add_r by lia. change (2 ^ 1) with 2.
  rewrite (Z.mul_comm 2 (2 ^ (w - 1))), Z.div_mul by lia. lia.
Qed.

Lemma Mod_half_S w n : 0 < w -> Mod w (S n) / 2 = Mod w n * (B w / 2).
Proof.
  intros Hw. rewrite Mod_S by lia. rewrite (B_even w Hw) at 1.
  replace (2 * (B w / 2) * Mod w n) with (Mod w n * (B w / 2) * 2) by ring.
  apply Z.div_mul. lia.
Qed.

Lemma uval_repeat0 w k : uval w (repeat 0 k) = 0.
Proof. induction k as [|k IH]; cbn [repeat uval]; [reflexivity | rewrite IH; lia]. Qed.

Lemma wf_repeat w k d : digit_ok w d -> wf w k (repeat d k).
Proof.
  intros Hd. split; [apply repeat_length|]. apply Forall_forall. intros x Hx.
  apply repeat_spec in Hx. subst; exact Hd.
Qed.

Lemma digit_ok_0 w : 0 <= w -> digit_ok w 0.
Proof. intros; unfold digit_ok. pose proof (B_pos w H). lia. Qed.

Lemma wf_ZERO w n : 0 <= w -> wf w n (ZERO n).
Proof. intros; apply wf_repeat, digit_ok_0; auto. Qed.

Lemma uval_ZERO w n : uval w (ZERO n) = 0.
Proof. apply uval_repeat0. Qed.

Lemma wf_from_digit w n d : 0 <= w -> digit_ok w d -> wf w n (from_digit n d).
Proof.
  intros Hw Hd. destruct n as [|n]; cbn [from_digit]; [apply wf_nil|].
  apply wf_cons. split; [exact Hd | apply wf_repeat, digit_ok_0; auto].
Qed.

Lemma uval_from_digit w n d : (0 < n)%nat -> uval w (from_digit n d) = d.
Proof.
  intros Hn. destruct n as [|n]; [lia|]. cbn [from_digit uval]. rewrite uval_repeat0. lia.
Qed.

Lemma wf_ONE w n : 0 < w -> wf w n (ONE n).
Proof.
  intros Hw. apply wf_from_digit; [lia|]. unfold digit_ok. pose proof (B_ge_2 w Hw). lia.
Qed.

Lemma uval_ONE w n : (0 < n)%nat -> uval w (ONE n) = 1.
Proof. apply uval_from_digit. Qed.

Lemma uval_repeat_max w k : 0 <= w -> uval w (repeat (u_max w) k) = Mod w k - 1.
Proof.
  intros Hw. induction k as [|k IH]; cbn [repeat uval].
  - rewrite Mod_0. reflexivity.
  - rewrite IH, Mod_S by lia. unfold u_max. ring.
Qed.

Lemma digit_ok_max w : 0 <= w -> digit_ok w (u_max w).
Proof. intros Hw. unfold digit_ok, u_max. pose proof (B_pos w Hw). lia. Qed.

Lemma wf_UMAX w n : 0 <= w -> wf w n (UMAX w n).
Proof. intros; apply wf_repeat, digit_ok_max; auto. Qed.

Lemma uval_UMAX w n : 0 <= w -> uval w (UMAX w n) = Mod w n - 1.
Proof. apply uval_repeat_max. Qed.

Lemma wf_IMIN w n : 0 < w -> wf w n (IMIN w n).
Proof.
  intros Hw. destruct n as [|n]; cbn [IMIN]; [apply wf_nil|].
  replace (S n) with (n + 1)%nat by lia. apply wf_app.
  - apply wf_repeat, digit_ok_0; lia.
  - apply wf_cons. split; [|apply wf_nil]. unfold digit_ok.
    pose proof (B_even w Hw). pose proof (B_ge_2 w Hw). lia.
Qed.

Lemma uval_IMIN w n : 0 < w -> (0 < n)%nat -> uval w (IMIN w n) = Mod w n / 2.
Proof.
  intros Hw Hn. destruct n as [|n]; [lia|]. cbn [IMIN].
  rewrite uval_app by lia. rewrite uval_repeat0, repeat_length. cbn [uval].
  rewrite Mod_half_S by lia. ring.
Qed.

Lemma wf_IMAX w n : 0 < w -> wf w n (IMAX w n).
Proof.
  intros Hw. destruct n as [|n]; cbn [IMAX]; [apply wf_nil|].
  replace (S n) with (n + 1)%nat by lia. apply wf_app.
  - apply wf_repeat, digit_ok_max; lia.
  - apply wf_cons. split; [|apply wf_nil]. unfold digit_ok.
    pose proof (B_even w Hw). pose proof (B_ge_2 w Hw). lia.
Qed.

Lemma uval_IMAX w n : 0 < w -> (0 < n)%nat -> uval w (IMAX w n) = Mod w n / 2 - 1.
Proof.
  intros Hw Hn. destruct n as [|n]; [lia|]. cbn [IMAX].
  rewrite uval_app by lia. rewrite uval_repeat_max, repeat_length by lia. cbn [uval].
  rewrite Mod_half_S by lia. ring.
Qed.

(* ---------- is_zero, ucmp ---------- *)

Lemma is_zero_spec w n a : 0 <= w -> wf w n a -> is_zero a = (uval w a =? 0).
Proof.
  intros Hw. revert a. induction n as [|n IH]; intros a H.
  - apply wf_inv_0 in H; subst. reflexivity.
  - destruct (wf_inv_S _ _ _ H) as (d & r & -> & Hd & Hr).
    cbn [is_zero uval]. rewrite (IH r Hr).
    pose proof (uval_bounds w n r Hw Hr). pose proof (B_pos w Hw). unfold digit_ok in Hd.
    destruct (Z.eqb_spec d 0).
    + subst d. destruct (Z.eqb_spec (uval w r) 0); destruct (Z.eqb_spec (0 + B w * uval w r) 0); try reflexivity; nia.
    + destruct (Z.eqb_spec (d + B w * uval w r) 0); [nia | reflexivity].
Qed.

Lemma ucmp_spec w n a b : 0 <= w -> wf w n a -> wf w n b -> ucmp a b = (uval w a ?= uval w b).
Proof.
  intros Hw. revert a b. induction n as [|n IH]; intros a b Ha Hb.
  - apply wf_inv_0 in Ha, Hb; subst. reflexivity.
  - destruct (wf_inv_S _ _ _ Ha) as (x & a' & -> & Hx & Ha').
    destruct (wf_inv_S _ _ _ Hb) as (y & b' & -> & Hy & Hb').
    cbn [ucmp uval]. rewrite (IH a' b' Ha' Hb').
    pose proof (B_pos w Hw). unfold digit_ok in *.
    destruct (Z.compare_spec (uval w a') (uval w b')) as [E|L|G].
    + rewrite E. destruct (Z.ltb_spec y x); [symmetry; apply Z.compare_gt_iff; lia|].
      destruct (Z.ltb_spec x y); symmetry; [apply Z.compare_lt_iff | apply Z.compare_eq_iff]; lia.
    + symmetry; apply Z.compare_lt_iff. nia.
    + symmetry; apply Z.compare_gt_iff. nia.
Qed.

Lemma ucmp_gt w n a b : 0 <= w -> wf w n a -> wf w n b -> cmp_gt (ucmp a b) = (uval w b <? uval w a).
Proof.
  intros Hw Ha Hb. rewrite (ucmp_spec w n a b Hw Ha Hb).
  destruct (Z.compare_spec (uval w a) (uval w b)); destruct (Z.ltb_spec (uval w b) (uval w a)); cbn; try reflexivity; lia.
Qed.

(* ---------- top digit, sign ---------- *)

Lemma wf_snoc_inv w n ds : wf w (S n) ds ->
  exists lo t, ds = lo ++ [t] /\ wf w n lo /\ digit_ok w t.
Proof.
  intros [Hl Hf]. destruct (@exists_last _ ds) as (lo & t & ->).
  { intros ->; discriminate. }
  exists lo, t. split; [reflexivity|]. rewrite app_length in Hl. cbn in Hl.
  apply Forall_app in Hf. destruct Hf as [Hlo Ht]. inversion Ht; subst.
  split; [split; [lia | exact Hlo] | assumption].
Qed.

Lemma uval_snoc w n lo t : 0 <= w -> wf w n lo -> uval w (lo ++ [t]) = uval w lo + Mod w n * t.
Proof.
  intros Hw Hlo. rewrite uval_app by lia. rewrite (wf_length _ _ _ Hlo). cbn [uval]. ring.
Qed.

Lemma top_digit_snoc lo t : top_digit (lo ++ [t]) = t.
Proof. unfold top_digit. apply last_last. Qed.

Lemma sd_neg w t : 0 < w -> digit_ok w t -> (sd w t <? 0) = (B w / 2 <=? t).
Proof.
  intros Hw Ht. unfold sd, to_signed, digit_ok in *. pose proof (B_even w Hw).
  destruct (Z.ltb_spec t (B w / 2)); destruct (Z.leb_spec (B w / 2) t); lia.
Qed.

Lemma is_negative_spec w n a : 0 < w -> (0 < n)%nat -> wf w n a ->
  is_negative w a = (Mod w n / 2 <=? uval w a).
Proof.
  intros Hw Hn H. destruct n as [|n]; [lia|].
  destruct (wf_snoc_inv _ _ _ H) as (lo & t & -> & Hlo & Ht).
  unfold is_negative, signed_digit. rewrite top_digit_snoc, sd_neg by auto.
  rewrite (uval_snoc w n) by (auto; lia). rewrite Mod_half_S by lia.
  pose proof (uval_bounds w n lo ltac:(lia) Hlo). pose proof (Mod_pos w n ltac:(lia)).
  destruct (Z.leb_spec (B w / 2) t); destruct (Z.leb_spec (Mod w n * (B w / 2)) (uval w lo + Mod w n * t));
    try reflexivity; nia.
Qed.

Lemma sval_unfold w n a : wf w n a ->
  sval w a = if Mod w n / 2 <=? uval w a then uval w a - Mod w n else uval w a.
Proof.
  intros H. unfold sval, to_signed. rewrite (wf_length _ _ _ H).
  destruct (Z.ltb_spec (uval w a) (Mod w n / 2)); destruct (Z.leb_spec (Mod w n / 2) (uval w a)); lia.
Qed.

Lemma is_negative_sval w n a : 0 < w -> (0 < n)%nat -> wf w n a ->
  is_negative w a = (sval w a <? 0).
Proof.
  intros Hw Hn H. rewrite (is_negative_spec w n a Hw Hn H), (sval_unfold w n a H).
  pose proof (uval_bounds w n a ltac:(lia) H). pose proof (Mod_even w n Hw Hn).
  destruct (Z.leb_spec (Mod w n / 2) (uval w a)).
  - destruct (Z.ltb_spec (uval w a - Mod w n) 0); lia.
  - destruct (Z.ltb_spec (uval w a) 0); lia.
Qed.

(* the value is determined by the signed reading, and conversely *)
Lemma sval_of_uval w n a x : 0 < w -> (0 < n)%nat -> wf w n a ->
  uval w a = x mod Mod w n -> sval w a = wrapS (Mod w n) x.
Proof.
  intros Hw Hn H E. unfold sval. rewrite (wf_length _ _ _ H), E.
  apply to_signed_of_mod; [apply Mod_pos; lia | apply Mod_even; auto].
Qed.

(* ---------- wrapping negation, unsigned_abs ---------- *)

Lemma uval_bitnot w n a : 0 <= w -> wf w n a -> wf w n (bitnot w a) /\ uval w (bitnot w a) = Mod w n - 1 - uval w a.
Proof.
  intros Hw. revert a. induction n as [|n IH]; intros a H.
  - apply wf_inv_0 in H; subst. cbn. rewrite Mod_0. split; [apply wf_nil | reflexivity].
  - destruct (wf_inv_S _ _ _ H) as (d & r & -> & Hd & Hr).
    destruct (IH r Hr) as [W E]. cbn [bitnot map uval]. fold (bitnot w r). split.
    + apply wf_cons. split; [|exact W]. unfold digit_ok, u_not in *. lia.
    + rewrite E, Mod_S by lia. unfold u_not. ring.
Qed.

Lemma ineg_loop_spec w n a : 0 < w -> wf w n a ->
  wf w n (fst (ineg_loop w a)) /\ uval w (fst (ineg_loop w a)) = (- uval w a) mod Mod w n.
Proof.
  intros Hw. revert a. induction n as [|n IH]; intros a H.
  - apply wf_inv_0 in H; subst. cbn. rewrite Mod_0. split; [apply wf_nil | reflexivity].
  - destruct (wf_inv_S _ _ _ H) as (d & r & -> & Hd & Hr).
    pose proof (B_pos w ltac:(lia)) as HB. unfold digit_ok in Hd.
    destruct r as [|d' r'].
    + (* top digit *)
      apply wf_length in Hr. cbn in Hr. subst n.
      cbn [ineg_loop s_ovf_add fst uval]. rewrite Mod_S, Mod_0 by lia.
      assert (E : ud w (wrapS (B w) (sd w (u_not w d) + 1)) = (- d) mod B w).
      { unfold ud. rewrite wrapS_mod by lia. unfold sd.
        rewrite <- Zplus_mod_idemp_l, to_signed_mod, Zplus_mod_idemp_l by lia.
        unfold u_not. replace (B w - 1 - d + 1) with (- d + 1 * B w) by ring.
        apply Z_mod_plus_full. }
      rewrite E. split.
      * apply wf_cons. split; [|apply wf_nil]. unfold digit_ok. apply Z.mod_pos_bound; lia.
      * replace (d + B w * 0) with d by ring. rewrite Z.mul_1_r. ring.
    + remember (d' :: r') as r eqn:Er.
      assert (Hstep : ineg_loop w (d :: r) =
                let '(s, o) := u_ovf_add w (u_not w d) 1 in
                if o then let '(r1, f) := ineg_loop w r in (s :: r1, f)
                else (s :: bitnot w r, false)).
      { subst r. reflexivity. }
      rewrite Hstep. clear Hstep. cbn [u_ovf_add].
      destruct (IH r Hr) as [W E]. pose proof (uval_bounds w n r ltac:(lia) Hr) as Hb.
      pose proof (Mod_pos w n ltac:(lia)) as HM.
      unfold u_not. rewrite Mod_S by lia. cbn [uval].
      destruct (Z.leb_spec (B w) (B w - 1 - d + 1)) as [Ho|Ho].
      * assert (d = 0) by lia. subst d.
        destruct (ineg_loop w r) as [r1 f] eqn:El. cbn [fst] in *.
        replace (B w - 1 - 0 + 1) with (0 + 1 * B w) by ring.
        rewrite Z_mod_plus_full, Z.mod_0_l by lia. split.
        -- apply wf_cons. split; [unfold digit_ok; lia | exact W].
        -- cbn [uval]. rewrite E.
           replace (- (0 + B w * uval w r)) with (B w * (- uval w r)) by ring.
           rewrite Z.mul_mod_distr_l by lia. ring.
      * cbn [fst]. destruct (uval_bitnot w n r ltac:(lia) Hr) as [W' E'].
        rewrite Z.mod_small by lia. split.
        -- apply wf_cons. split; [unfold digit_ok; lia | exact W'].
        -- cbn [uval]. rewrite E'.
           replace (- (d + B w * uval w r)) with ((B w * Mod w n - (d + B w * uval w r)) + (-1) * (B w * Mod w n)) by ring.
           rewrite Z_mod_plus_full. rewrite Z.mod_small by nia. ring.
Qed.

Lemma I_wrapping_neg_spec w n a : 0 < w -> wf w n a ->
  wf w n (I_wrapping_neg w a) /\ uval w (I_wrapping_neg w a) = (- uval w a) mod Mod w n.
Proof. intros; unfold I_wrapping_neg, I_overflowing_neg. apply ineg_loop_spec; auto. Qed.

Lemma I_unsigned_abs_spec w n a : 0 < w -> (0 < n)%nat -> wf w n a ->
  wf w n (I_unsigned_abs w a) /\ uval w (I_unsigned_abs w a) = Z.abs (sval w a).
Proof.
  intros Hw Hn H. unfold I_unsigned_abs.
  rewrite (is_negative_spec w n a Hw Hn H), (sval_unfold w n a H).
  pose proof (uval_bounds w n a ltac:(lia) H). pose proof (Mod_even w n Hw Hn).
  destruct (Z.leb_spec (Mod w n / 2) (uval w a)).
  - destruct (I_wrapping_neg_spec w n a Hw H) as [W E]. split; [exact W|]. rewrite E.
    replace (- uval w a) with (Mod w n - uval w a + (-1) * Mod w n) by ring.
    rewrite Z_mod_plus_full, Z.mod_small by lia. lia.
  - split; [exact H | lia].
Qed.

(* ---------- icmp ---------- *)

Lemma sval_snoc w n lo t : 0 < w -> wf w n lo -> digit_ok w t ->
  sval w (lo ++ [t]) = uval w lo + Mod w n * sd w t.
Proof.
  intros Hw Hlo Ht.
  assert (H : wf w (S n) (lo ++ [t])).
  { replace (S n) with (n + 1)%nat by lia. apply wf_app; [exact Hlo|]. apply wf_cons. split; [exact Ht | apply wf_nil]. }
  rewrite (sval_unfold w (S n) _ H), (uval_snoc w n) by (auto; lia).
  rewrite Mod_half_S, Mod_S by lia.
  pose proof (uval_bounds w n lo ltac:(lia) Hlo). pose proof (Mod_pos w n ltac:(lia)).
  pose proof (B_even w Hw). unfold sd, to_signed, digit_ok in *.
  destruct (Z.leb_spec (Mod w n * (B w / 2)) (uval w lo + Mod w n * t)); destruct (Z.ltb_spec t (B w / 2)); nia.
Qed.

Lemma icmp_spec w n a b : 0 < w -> (0 < n)%nat -> wf w n a -> wf w n b ->
  icmp w a b = (sval w a ?= sval w b).
Proof.
  intros Hw Hn Ha Hb. destruct n as [|n]; [lia|].
  unfold icmp. rewrite (ucmp_spec w (S n) a b ltac:(lia) Ha Hb).
  destruct (wf_snoc_inv _ _ _ Ha) as (la & ta & -> & Hla & Hta).
  destruct (wf_snoc_inv _ _ _ Hb) as (lb & tb & -> & Hlb & Htb).
  unfold signed_digit. rewrite !top_digit_snoc.
  rewrite !(sval_snoc w n), !(uval_snoc w n) by (auto; lia).
  pose proof (uval_bounds w n la ltac:(lia) Hla). pose proof (uval_bounds w n lb ltac:(lia) Hlb).
  pose proof (Mod_pos w n ltac:(lia)).
  assert (Hinj : sd w ta = sd w tb -> ta = tb).
  { unfold sd, to_signed, digit_ok in *. destruct (ta <? B w / 2), (tb <? B w / 2); lia. }
  destruct (Z.eqb_spec (sd w ta) (sd w tb)) as [E|NE].
  - rewrite (Hinj E).
    destruct (Z.compare_spec (uval w la + Mod w n * tb) (uval w lb + Mod w n * tb)); symmetry;
      [apply Z.compare_eq_iff | apply Z.compare_lt_iff | apply Z.compare_gt_iff]; lia.
  - destruct (Z.ltb_spec (sd w tb) (sd w ta)); symmetry; [apply Z.compare_gt_iff | apply Z.compare_lt_iff]; nia.
Qed.

(* ---------- bits_of ---------- *)

Lemma leading_zeros_rev_snoc w l d :
  leading_zeros_rev w (l ++ [d]) =
  if is_zero l then w * Z.of_nat (length l) + u_leading_zeros w d else leading_zeros_rev w l.
Proof.
  induction l as [|x l IH]; cbn [app leading_zeros_rev is_zero length].
  - change (Z.of_nat 0) with 0. destruct (d =? 0); lia.
  - destruct (Z.eqb_spec x 0) as [->|Hx]; [|reflexivity].
    rewrite IH. destruct (is_zero l); [|reflexivity].
    rewrite Nat2Z.inj_succ. unfold u_leading_zeros at 1. change (bitlen 0) with 0. lia.
Qed.

Lemma is_zero_rev l : is_zero (rev l) = is_zero l.
Proof.
  assert (Happ : forall a b, is_zero (a ++ b) = is_zero a && is_zero b).
  { induction a as [|x a IH]; intros b; cbn [app is_zero]; [reflexivity|].
    destruct (x =? 0); [apply IH | reflexivity]. }
  induction l as [|x l IH]; [reflexivity|].
  cbn [rev]. rewrite Happ, IH. cbn [is_zero]. destruct (x =? 0); [rewrite andb_true_r | rewrite andb_false_r]; reflexivity.
Qed.

Lemma bitlen_nonneg x : 0 <= bitlen x.
Proof. unfold bitlen. destruct (x =? 0); [lia|]. pose proof (Z.log2_nonneg x). lia. Qed.

Lemma bitlen_step w d v : 0 <= w -> 0 <= d < 2 ^ w -> 0 <= v ->
  bitlen (d + 2 ^ w * v) = if v =? 0 then bitlen d else w + bitlen v.
Proof.
  intros Hw Hd Hv. destruct (Z.eqb_spec v 0) as [->|Hnz].
  - f_equal. ring.
  - unfold bitlen. assert (Hp : 0 < 2 ^ w) by (apply Z.pow_pos_nonneg; lia).
    destruct (Z.eqb_spec (d + 2 ^ w * v) 0); [nia|].
    destruct (Z.eqb_spec v 0); [lia|].
    assert (Z.log2 (d + 2 ^ w * v) = w + Z.log2 v); [|lia].
    apply Z.log2_unique.
    + pose proof (Z.log2_nonneg v). lia.
    + pose proof (Z.log2_spec v ltac:(lia)) as [L1 L2].
      pose proof (Z.log2_nonneg v).
      rewrite <- Z.add_succ_r, !Z.pow_add_r by lia.
      set (P := 2 ^ Z.log2 v) in *. set (Q := 2 ^ Z.succ (Z.log2 v)) in *. set (W := 2 ^ w) in *.
      assert (W * P <= W * v) by (apply Z.mul_le_mono_nonneg_l; lia).
      assert (W * (v + 1) <= W * Q) by (apply Z.mul_le_mono_nonneg_l; lia).
      lia.
Qed.

Lemma bits_of_spec w n a : 0 < w -> wf w n a -> bits_of w a = bitlen (uval w a).
Proof.
  intros Hw H. unfold bits_of, leading_zeros. rewrite (wf_length _ _ _ H).
  revert a H. induction n as [|n IH]; intros a H.
  - apply wf_inv_0 in H; subst. cbn [rev leading_zeros_rev uval]. unfold bits.
    change (Z.of_nat 0) with 0. change (bitlen 0) with 0. lia.
  - destruct (wf_inv_S _ _ _ H) as (d & r & -> & Hd & Hr).
    cbn [rev uval]. rewrite leading_zeros_rev_snoc, is_zero_rev, rev_length.
    rewrite (wf_length _ _ _ Hr). specialize (IH r Hr).
    pose proof (uval_bounds w n r ltac:(lia) Hr) as Hb.
    unfold digit_ok in *. unfold B in *. rewrite bitlen_step by lia.
    rewrite (is_zero_spec w n r ltac:(lia) Hr).
    unfold bits in *. destruct (uval w r =? 0).
    + unfold u_leading_zeros. lia.
    + lia.
Qed.

(* Proofs/OpsProofs.v — C17: the operator-trait layer of Model/Ops.v agrees with the inherent methods. *)
From Bnum Require Import Base Prim.
From Bnum.Model Require Import Digit Core Shift AddSub Mul Div Bits Pow Ops.
From Bnum.Proofs Require Import AddSubLemmas AddSub Mul Shift PowDeps Panics.

(* ---- shift amounts: for an in-range amount every amount type reaches the inherent shl/shr ---- *)
Theorem Shl_prim_eq_inherent dbg w ty a v : amt_range ty v -> 0 <= v < 2 ^ 32 ->
  U_Shl_prim dbg w ty a v = U_shl dbg w a v /\ U_Shr_prim dbg w ty a v = U_shr dbg w a v /\
  I_Shl_prim dbg w ty a v = I_shl dbg w a v /\ I_Shr_prim dbg w ty a v = I_shr dbg w a v.
Proof.
  intros Hr Hv. destruct (amt_to_exptype_spec dbg ty v Hr) as (_ & E & _).
  specialize (E Hv). unfold U_Shl_prim, U_Shr_prim, I_Shl_prim, I_Shr_prim. rewrite E. cbn [obind]. repeat split.
Qed.

Theorem Shl_bnum_eq_inherent dbg w (self_signed amt_signed : bool) a amt :
  let v := if amt_signed then sval w amt else uval w amt in
  0 <= v <= u32_max ->
  Shl_bnum dbg w self_signed amt_signed a amt = (if self_signed then I_shl dbg w a v else U_shl dbg w a v) /\
  Shr_bnum dbg w self_signed amt_signed a amt = (if self_signed then I_shr dbg w a v else U_shr dbg w a v).
Proof.
  cbv zeta. intros Hv. unfold Shl_bnum, Shr_bnum, bnum_amt.
  destruct (Z.leb_spec 0 (if amt_signed then sval w amt else uval w amt)); [|lia].
  destruct (Z.leb_spec (if amt_signed then sval w amt else uval w amt) u32_max); [|lia].
  cbn [andb obind]. split; reflexivity.
Qed.

Theorem Shl_bnum_panics_out_of_u32 dbg w (self_signed amt_signed : bool) a amt :
  let v := if amt_signed then sval w amt else uval w amt in
  (v < 0 \/ u32_max < v) ->
  Shl_bnum dbg w self_signed amt_signed a amt = Panic /\ Shr_bnum dbg w self_signed amt_signed a amt = Panic.
Proof.
  cbv zeta. intros Hv. unfold Shl_bnum, Shr_bnum, bnum_amt.
  destruct (Z.leb_spec 0 (if amt_signed then sval w amt else uval w amt));
    destruct (Z.leb_spec (if amt_signed then sval w amt else uval w amt) u32_max); cbn [andb obind];
    try (split; reflexivity); lia.
Qed.

(* ---- Add<Digit> ---- *)
Lemma mod_split Bw M s t : 0 < Bw -> 0 < M -> 0 <= s < Bw -> (s + Bw * t) mod (Bw * M) = s + Bw * (t mod M).
Proof.
  intros HB HM Hs. rewrite Z.rem_mul_r by lia.
  replace (s + Bw * t) with (s + t * Bw) by ring.
  rewrite Z_mod_plus_full, Z.div_add, (Z.mod_small s), (Z.div_small s) by lia. rewrite Z.add_0_l. reflexivity.
Qed.

Lemma add_digit_carry_spec w n ds c : 0 < w -> wf w n ds ->
  wf w n (add_digit_carry w ds c) /\
  uval w (add_digit_carry w ds c) = (uval w ds + b2z c) mod Mod w n.
Proof.
  intros Hw. revert ds c. induction n as [|n IH]; intros ds c Hds.
  - apply wf_inv_0 in Hds. subst ds. cbn [add_digit_carry]. split; [apply wf_nil|].
    rewrite Mod_0, Z.mod_1_r. reflexivity.
  - destruct (wf_inv_S _ _ _ Hds) as (d & r & -> & Hd & Hr). cbn [add_digit_carry].
    pose proof (B_pos w ltac:(lia)) as HB. pose proof (Mod_pos w n ltac:(lia)) as HM.
    unfold digit_ok in Hd.
    destruct c; cbn [b2z].
    + unfold u_ovf_add. destruct (IH r (B w <=? d + 1) Hr) as (IW & IV).
      assert (Hs : 0 <= (d + 1) mod B w < B w) by (apply Z.mod_pos_bound; lia).
      split; [apply wf_cons; split; [exact Hs | exact IW]|].
      cbn [uval]. rewrite IV, Mod_S by lia. rewrite <- mod_split by lia. f_equal.
      destruct (Z.leb_spec (B w) (d + 1)) as [L|L]; cbn [b2z].
      * assert (E : d + 1 = B w) by lia. rewrite E, Z.mod_same by lia. lia.
      * rewrite (Z.mod_small (d + 1)) by lia. lia.
    + split; [exact Hds|]. rewrite Z.add_0_r. symmetry. apply Z.mod_small.
      pose proof (uval_bounds w (S n) (d :: r) ltac:(lia) Hds). lia.
Qed.

Theorem U_Add_digit_ok w n a d : 0 < w -> (0 < n)%nat -> wf w n a -> 0 <= d < B w ->
  wf w n (U_Add_digit w a d) /\ uval w (U_Add_digit w a d) = (uval w a + d) mod Mod w n.
Proof.
  intros Hw Hn Ha Hd. destruct n as [|n]; [lia|].
  destruct (wf_inv_S _ _ _ Ha) as (x & r & -> & Hx & Hr). unfold U_Add_digit.
  pose proof (carrying_add_spec w x d false ltac:(lia) Hx Hd) as Hc.
  destruct (carrying_add w x d false) as [s c]. destruct Hc as (Hs & Hv). cbn [b2z] in Hv.
  destruct (add_digit_carry_spec w n r c Hw Hr) as (IW & IV).
  split; [apply wf_cons; split; assumption|].
  cbn [uval]. rewrite IV, Mod_S by lia.
  pose proof (B_pos w ltac:(lia)) as HB. pose proof (Mod_pos w n ltac:(lia)) as HM.
  unfold digit_ok in Hs. rewrite <- mod_split by lia. f_equal. lia.
Qed.

Corollary U_Add_digit_exact w n a d : 0 < w -> (0 < n)%nat -> wf w n a -> 0 <= d < B w ->
  uval w a + d < Mod w n -> uval w (U_Add_digit w a d) = uval w a + d.
Proof.
  intros Hw Hn Ha Hd Hfit. destruct (U_Add_digit_ok w n a d Hw Hn Ha Hd) as (_ & ->).
  pose proof (uval_bounds w n a ltac:(lia) Ha). apply Z.mod_small. lia.
Qed.

(* ---- Div<Digit> / Rem<Digit>: under the division-by-a-digit theorem of C03 (premise) ---- *)
Theorem Div_Rem_digit_ok : div_digit_spec -> forall w n a d, 0 < w -> wf w n a -> 0 < d < B w ->
  exists q r, U_Div_digit w a d = Ret q /\ U_Rem_digit w a d = Ret r /\
              wf w n q /\ uval w q = uval w a / d /\ r = uval w a mod d.
Proof.
  intros Hspec w n a d Hw Ha Hd. specialize (Hspec w n a d Hw Ha Hd).
  unfold U_Div_digit, U_Rem_digit. destruct (Z.eqb_spec d 0) as [E|_]; [lia|].
  destruct (div_rem_digit w a d) as [q r]. destruct Hspec as (Hq & Hv & Hr). cbn [fst snd].
  exists q, r. split; [reflexivity|]. split; [reflexivity|]. split; [exact Hq|]. split.
  - apply (Z.div_unique_pos (uval w a) d (uval w q) r); lia.
  - apply (Z.mod_unique_pos (uval w a) d (uval w q) r); lia.
Qed.

Theorem Div_Rem_digit_zero w a : U_Div_digit w a 0 = Panic /\ U_Rem_digit w a 0 = Panic.
Proof. split; reflexivity. Qed.

(* ---- Sum / Product are the left folds from ZERO / ONE ---- *)
Theorem Sum_Product_are_folds dbg w n xs :
  U_Sum dbg w n xs = fold_out (U_add dbg w) xs (ZERO n) /\
  U_Product dbg w n xs = fold_out (U_mul dbg w) xs (ONE n) /\
  I_Sum dbg w n xs = fold_out (I_add dbg w) xs (ZERO n) /\
  I_Product dbg w n xs = fold_out (I_mul dbg w) xs (ONE n).
Proof. repeat split. Qed.

Lemma fold_out_cons f x xs acc : fold_out f (x :: xs) acc = obind (f acc x) (fun a => fold_out f xs a).
Proof. reflexivity. Qed.

(* value of a sum that never overflows: every build mode returns the exact sum *)
Theorem U_Sum_exact dbg w n xs : 0 < w -> Forall (wf w n) xs ->
  forall acc, wf w n acc -> uval w acc + fold_right (fun x s => uval w x + s) 0 xs < Mod w n ->
  exists r, fold_out (U_add dbg w) xs acc = Ret r /\ wf w n r /\
            uval w r = uval w acc + fold_right (fun x s => uval w x + s) 0 xs.
Proof.
  intros Hw Hxs. induction Hxs as [|x xs Hx Hxs IH]; intros acc Hacc Hfit.
  - cbn [fold_out fold_right]. exists acc. split; [reflexivity|]. split; [exact Hacc | lia].
  - cbn [fold_right] in *. rewrite fold_out_cons.
    assert (Hnn : 0 <= fold_right (fun x s => uval w x + s) 0 xs).
    { clear - Hw Hxs. induction Hxs as [|y ys Hy _ IHy]; cbn [fold_right]; [lia|].
      pose proof (uval_bounds w n y ltac:(lia) Hy). lia. }
    pose proof (uval_bounds w n x ltac:(lia) Hx) as Hxb.
    destruct (U_add_panics dbg w n acc x Hw Hacc Hx) as (_ & _ & P).
    destruct (P ltac:(lia)) as (r1 & E1 & W1 & V1). rewrite E1. cbn [obind].
    destruct (IH r1 W1 ltac:(lia)) as (r & E & W & V). exists r. split; [exact E|]. split; [exact W | lia].
Qed.

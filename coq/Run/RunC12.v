(* Run/RunC12.v — operation table for property C12 (formatting traits).  Hand-written.
     U.fmt | I.fmt            <w> <n> L:<digits> Z:<trait> Z:<flags> Z:<width>   -> L:<bytes of the output string>
     U.cmp_prim | I.cmp_prim  <w> <n> L:<digits> Z:<trait> Z:<flags> Z:<width>   -> B:1
   trait: 0 Display 1 Debug 2 Binary 3 Octal 4 LowerHex 5 UpperHex 6 LowerExp 7 UpperExp
   flags: bits 0-1 fill (0 ' ', 1 '*', 2 '0'), bits 2-3 alignment (0 none, 1 '<', 2 '^', 3 '>'),
          bit 4 '+', bit 5 '#', bit 6 '0', bit 7 "no width given" (then <width> is ignored).
          A fill other than ' ' needs an alignment (format-spec grammar `[[fill]align]`).
   The whole output string is the model's (is_nonnegative, prefix, body) pushed through
   pad_integral_ref (Model/Fmt.v: transcription of std's pad_integral, trusted, validated here).
   *.cmp_prim is evaluated on the Rust side only: bnum's output and the output of the primitive
   integer (u8..u128 / i8..i128) holding the same value under the same format string are equal. *)
From Bnum Require Import Base Prim.
From Bnum.Model Require Import Core RadixOut Fmt.
From Bnum.Run Require Import RunBase.
From Coq Require Import String.
Open Scope string_scope.
Open Scope Z_scope.

Definition fill_char (k : Z) : Z := if k =? 0 then 32 else if k =? 1 then 42 else 48.

Definition decode_flags (fl width : Z) : option fmt_flags :=
  let fill := fl mod 4 in
  let align := (fl / 4) mod 4 in
  let bit k := Z.odd (fl / 2 ^ k) in
  if (0 <=? fl) && (fl <? 256) && (fill <? 3) && negb ((align =? 0) && negb (fill =? 0))
     && (0 <=? width) && (width <=? 65535)
  then Some (mk_flags (fill_char fill) align (bit 4) (bit 5) (bit 6) (if bit 7 then None else Some width))
  else None.

Definition trait_ok (tr : Z) : bool := (0 <=? tr) && (tr <? 8).

Definition h_fmt (signed : bool) : handler := fun w n _ args =>
  match args with
  | [VL a; VZ tr; VZ fl; VZ width] =>
      if wfb w n a && trait_ok tr then
        match decode_flags fl width with
        | Some flags =>
            vfuel vRL (if signed then I_format pad_integral_ref flags tr w a
                       else U_format pad_integral_ref flags tr w a)
        | None => VBad
        end
      else VBad
  | _ => VBad
  end.

Definition h_cmp_prim : handler := fun w n _ args =>
  match args with
  | [VL a; VZ tr; VZ fl; VZ width] =>
      if wfb w n a && trait_ok tr && (w * Z.of_nat n <=? 128) then
        match decode_flags fl width with Some _ => VB true | None => VBad end
      else VBad
  | _ => VBad
  end.

Definition table_C12 : table := [
  ("U.fmt", h_fmt false);
  ("I.fmt", h_fmt true);
  ("U.cmp_prim", h_cmp_prim);
  ("I.cmp_prim", h_cmp_prim)
].

Definition run_C12 := run_table table_C12.

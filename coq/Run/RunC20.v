(* Run/RunC20.v — operation table of property C20 (random generation), hand-written: the operations
   take the scripted RNG output as a raw byte list (the same bytes the harness's RngCore hands out).
   Result protocol:  (L:<digits of the value> Z:<bytes left in the script>)  |  Panic  |
                     Err:3f  when the script is too short for a request (harness: the scripted RngCore
                     ran dry)  |  BAD never (out of fuel: fuel_for s > number of possible iterations). *)
From Bnum Require Import Base Prim.
From Bnum.Model Require Import Core Shift AddSub Mul Div Bits Random.
From Bnum.Run Require Import RunBase.
From Coq Require Import String.

Definition bytes_ok (s : list Z) : bool := forallb (digit_okb 8) s.

Definition vrest (s : stream) : val := VZ (Z.of_nat (List.length s)).
Definition vR (r : rres (list Z)) : val :=
  match r with
  | RVal v rest => VPair (VL v) (vrest rest)
  | RPanic => VPanic
  | ROutOfStream => VErr 63
  | ROutOfFuel => VBad
  end.
Definition vRs (r : rres (list (list Z))) : val :=
  match r with
  | RVal vs rest => VPair (VL (List.concat vs)) (vrest rest)
  | RPanic => VPanic
  | ROutOfStream => VErr 63
  | ROutOfFuel => VBad
  end.

(* [R stream] *)
Definition h_S (f : Z -> nat -> stream -> val) : handler := fun w n _ args =>
  match args with [VL s] => if bytes_ok s then f w n s else VBad | _ => VBad end.
(* [Z len; R stream] *)
Definition h_ZS (f : Z -> nat -> Z -> stream -> val) : handler := fun w n _ args =>
  match args with [VZ k; VL s] => if bytes_ok s && (0 <=? k)%Z then f w n k s else VBad | _ => VBad end.
(* [L low; L high; R stream] *)
Definition h_LLS (f : bool -> Z -> list Z -> list Z -> stream -> val) : handler := fun w n dbg args =>
  match args with
  | [VL a; VL b; VL s] => if wfb w n a && wfb w n b && bytes_ok s then f dbg w a b s else VBad
  | _ => VBad
  end.
(* [L low; L high; Z count; R stream] *)
Definition h_LLZS (f : bool -> Z -> list Z -> list Z -> Z -> stream -> val) : handler := fun w n dbg args =>
  match args with
  | [VL a; VL b; VZ k; VL s] =>
      if wfb w n a && wfb w n b && bytes_ok s && (0 <=? k)%Z then f dbg w a b k s else VBad
  | _ => VBad
  end.
(* [L low; L high; Z start; Z count] *)
Definition h_LLZZ (f : bool -> Z -> list Z -> list Z -> Z -> Z -> val) : handler := fun w n dbg args =>
  match args with
  | [VL a; VL b; VZ z; VZ k] =>
      if wfb w n a && wfb w n b && (0 <=? z)%Z && (0 <=? k)%Z then f dbg w a b z k else VBad
  | _ => VBad
  end.

(* k successive draws from one sampler, threading the stream *)
Fixpoint sample_k (k : nat) (sg dbg : bool) (w : Z) (u : uniform) (s : stream) (acc : list (list Z))
  : rres (list (list Z)) :=
  match k with
  | O => RVal (rev acc) s
  | S k' =>
      match uniform_sample (fuel_for s) sg dbg w u s with
      | RVal v rest => sample_k k' sg dbg w u rest (v :: acc)
      | RPanic => RPanic
      | ROutOfStream => ROutOfStream
      | ROutOfFuel => ROutOfFuel
      end
  end.
Definition uniform_inclusive_sample_k (sg dbg : bool) (w : Z) (low high : list Z) (k : Z) (s : stream) : val :=
  match uniform_new_inclusive sg dbg w low high with
  | Panic => VPanic
  | Ret u => vRs (sample_k (Z.to_nat k) sg dbg w u s [])
  end.

(* exhaustive sub-runs: the RNG hands out exactly one word v (its BYTES little-endian bytes), for
   v = start .. start+count-1; the entry is the value drawn, or 2^BITS when the word is rejected
   (the script is then dry), 2^BITS + 1 for a panic *)
Definition word_bytes (w : Z) (n : nat) (v : Z) : list Z := digits_of 8 (BYTES w n) v.
Definition sweep_entry (w : Z) (n : nat) (r : rres (list Z)) : Z :=
  match r with
  | RVal x _ => uval w x
  | ROutOfStream => Mod w n
  | RPanic => Mod w n + 1
  | ROutOfFuel => Mod w n + 2
  end.
Fixpoint sweep (cnt : nat) (v : Z) (w : Z) (n : nat) (f : stream -> rres (list Z)) : list Z :=
  match cnt with
  | O => []
  | S c => sweep_entry w n (f (word_bytes w n v)) :: sweep c (v + 1) w n f
  end.

Open Scope string_scope.
Definition table_C20 : table := [
  ("U.standard", h_S (fun w n s => vR (U_standard w n s)));
  ("I.standard", h_S (fun w n s => vR (I_standard w n s)));
  ("U.try_fill_slice", h_ZS (fun w n k s => vRs (U_try_fill_slice w n (Z.to_nat k) s)));
  ("I.try_fill_slice", h_ZS (fun w n k s => vRs (I_try_fill_slice w n (Z.to_nat k) s)));
  ("U.fill_trait", h_ZS (fun w n k s => vRs (U_try_fill_slice w n (Z.to_nat k) s)));
  ("I.fill_trait", h_ZS (fun w n k s => vRs (I_try_fill_slice w n (Z.to_nat k) s)));
  ("U.add_digit", h_LZ (fun w a z => if digit_okb w z then vRL (U_add_digit w a z) else VBad));
  ("U.uniform_new_sample", h_LLS (fun dbg w a b s => vR (uniform_new_sample (fuel_for s) false dbg w a b s)));
  ("I.uniform_new_sample", h_LLS (fun dbg w a b s => vR (uniform_new_sample (fuel_for s) true dbg w a b s)));
  ("U.uniform_new_inclusive_sample",
     h_LLS (fun dbg w a b s => vR (uniform_new_inclusive_sample (fuel_for s) false dbg w a b s)));
  ("I.uniform_new_inclusive_sample",
     h_LLS (fun dbg w a b s => vR (uniform_new_inclusive_sample (fuel_for s) true dbg w a b s)));
  ("U.uniform_inclusive_sample_k", h_LLZS (fun dbg w a b k s => uniform_inclusive_sample_k false dbg w a b k s));
  ("I.uniform_inclusive_sample_k", h_LLZS (fun dbg w a b k s => uniform_inclusive_sample_k true dbg w a b k s));
  ("U.sample_single", h_LLS (fun dbg w a b s => vR (U_sample_single (fuel_for s) dbg w a b s)));
  ("I.sample_single", h_LLS (fun dbg w a b s => vR (I_sample_single (fuel_for s) dbg w a b s)));
  ("U.sample_single_inclusive", h_LLS (fun dbg w a b s => vR (U_sample_single_inclusive (fuel_for s) dbg w a b s)));
  ("I.sample_single_inclusive", h_LLS (fun dbg w a b s => vR (I_sample_single_inclusive (fuel_for s) dbg w a b s)));
  ("U.gen_range", h_LLS (fun dbg w a b s => vR (gen_range (fuel_for s) false dbg w a b s)));
  ("I.gen_range", h_LLS (fun dbg w a b s => vR (gen_range (fuel_for s) true dbg w a b s)));
  ("U.gen_range_inclusive", h_LLS (fun dbg w a b s => vR (gen_range_inclusive (fuel_for s) false dbg w a b s)));
  ("I.gen_range_inclusive", h_LLS (fun dbg w a b s => vR (gen_range_inclusive (fuel_for s) true dbg w a b s)));
  ("U.sweep_ssi", fun w n dbg args => h_LLZZ (fun dbg w a b z k =>
     VL (sweep (Z.to_nat k) z w n (fun s => sample_single_inclusive (fuel_for s) false dbg w a b s))) w n dbg args);
  ("I.sweep_ssi", fun w n dbg args => h_LLZZ (fun dbg w a b z k =>
     VL (sweep (Z.to_nat k) z w n (fun s => sample_single_inclusive (fuel_for s) true dbg w a b s))) w n dbg args);
  ("U.sweep_uni", fun w n dbg args => h_LLZZ (fun dbg w a b z k =>
     VL (sweep (Z.to_nat k) z w n (fun s => uniform_new_inclusive_sample (fuel_for s) false dbg w a b s))) w n dbg args);
  ("I.sweep_uni", fun w n dbg args => h_LLZZ (fun dbg w a b z k =>
     VL (sweep (Z.to_nat k) z w n (fun s => uniform_new_inclusive_sample (fuel_for s) true dbg w a b s))) w n dbg args)
].

Definition run_C20 := run_table table_C20.

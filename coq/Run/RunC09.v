(* Run/RunC09.v — operation table for property C09 (integer casts).  Hand-written: the
   operations involve two configurations / a primitive type, passed as leading arguments:
     cast      <w> <n> Z:<w'> Z:<n'> B:<src_signed> B:<dst_signed> L:<digits>
     to_prim   <w> <n> Z:<bits> B:<prim_signed> B:<src_signed> L:<digits>      (u8..u128, i8..i128)
     to_size   <w> <n> B:<prim_signed> B:<src_signed> L:<digits>                (usize / isize, 64-bit target)
     from_prim <w> <n> Z:<bits> B:<prim_signed> B:<dst_signed> Z:<value>
     from_size <w> <n> B:<prim_signed> B:<dst_signed> Z:<value>
     from_bool <w> <n> B:<dst_signed> B:<value>
     from_char <w> <n> B:<dst_signed> Z:<code point>
     cast_signed | cast_unsigned | to_bits | from_bits   <w> <n> L:<digits>
   (for from_*: <w> <n> is the TARGET configuration). *)
From Bnum Require Import Base Prim.
From Bnum.Model Require Import Core Cast.
From Bnum.Run Require Import RunBase.
From Coq Require Import String.
Open Scope string_scope.
Open Scope Z_scope.

Definition prim_in_range (pb : Z) (ps : bool) (v : Z) : bool :=
  if ps then inS (2 ^ pb) v else inU (2 ^ pb) v.

Definition h_cast : handler := fun w n dbg args =>
  match args with
  | [VZ w'; VZ n'; VB ss; VB dsg; VL a] =>
      if wfb w n a && (0 <? w') && (0 <=? n') then vRL (cast dbg w w' (Z.to_nat n') ss dsg a) else VBad
  | _ => VBad
  end.
Definition h_to_prim : handler := fun w n dbg args =>
  match args with
  | [VZ pb; VB ps; VB ss; VL a] =>
      if wfb w n a && (0 <? pb) then vout VZ (to_prim dbg pb ps w ss a) else VBad
  | _ => VBad
  end.
Definition h_to_size : handler := fun w n dbg args =>
  match args with
  | [VB ps; VB ss; VL a] => if wfb w n a then vout VZ (to_prim dbg 64 ps w ss a) else VBad
  | _ => VBad
  end.
Definition h_from_prim : handler := fun w n _ args =>
  match args with
  | [VZ pb; VB ps; VB dsg; VZ v] =>
      if (0 <? pb) && prim_in_range pb ps v then vRL (from_prim pb w n dsg v) else VBad
  | _ => VBad
  end.
Definition h_from_size : handler := fun w n _ args =>
  match args with
  | [VB ps; VB dsg; VZ v] => if prim_in_range 64 ps v then vRL (from_prim 64 w n dsg v) else VBad
  | _ => VBad
  end.
Definition h_from_bool : handler := fun w n _ args =>
  match args with
  | [VB dsg; VB b] => VL (if dsg then I_from_bool n b else U_from_bool n b)
  | _ => VBad
  end.
Definition h_from_char : handler := fun w n _ args =>
  match args with
  | [VB dsg; VZ c] =>
      if (0 <=? c) && (c <? 1114112) && negb ((55296 <=? c) && (c <? 57344))
      then vRL (if dsg then I_from_char w n c else U_from_char w n c) else VBad
  | _ => VBad
  end.

Definition table_C09 : table := [
  ("cast", h_cast);
  ("to_prim", h_to_prim);
  ("to_size", h_to_size);
  ("from_prim", h_from_prim);
  ("from_size", h_from_size);
  ("from_bool", h_from_bool);
  ("from_char", h_from_char);
  ("cast_signed", h_L (fun w a => vL (cast_signed a)));
  ("cast_unsigned", h_L (fun w a => vL (cast_unsigned a)));
  ("to_bits", h_L (fun w a => vL (to_bits a)));
  ("from_bits", h_L (fun w a => vL (from_bits a)))
].

Definition run_C09 := run_table table_C09.

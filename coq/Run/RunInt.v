(* Run/RunInt.v — result encoders for the internal-function operations (cfg(bnum_verif) hooks). *)
From Bnum Require Import Base Prim.
From Bnum.Model Require Import Digit Core Shift AddSub Mul Div Bits Pow.
From Bnum.Run Require Import RunBase.

Definition v_div_rem_digit (w : Z) (a : list Z) (d : Z) : val :=
  let '(q, r) := div_rem_digit w a d in VPair (VL q) (VZ r).
Definition v_iilog (dbg : bool) (w : Z) (n : nat) (m : Z) (b k : list Z) : val :=
  vfuel (vout (fun p : Z * list Z => VPair (VZ (fst p)) (VL (snd p)))) (iilog (ilog_fuel w n) dbg w m b k).

(* Run/RunBase.v — glue between the text protocol of the correspondence check
   and the model functions: argument decoding combinators and table lookup.
   Not part of any theorem; part of the trusted base of the tie only. *)
From Bnum Require Import Base.
From Coq Require Import String.
Open Scope string_scope.

(* w, n (digit count), dbg (cfg(debug_assertions)), arguments *)
Definition handler := Z -> nat -> bool -> list val -> val.
Definition table := list (string * handler).

Fixpoint lookup (t : table) (op : string) : option handler :=
  match t with
  | [] => None
  | (k, h) :: r => if String.eqb k op then Some h else lookup r op
  end.

Definition run_table (t : table) (op : string) (w : Z) (n : nat) (dbg : bool) (args : list val) : val :=
  match lookup t op with Some h => h w n dbg args | None => VBad end.

(* digit-list arguments are checked for well-formedness (length n, digits < 2^w) *)
Definition h_L (f : Z -> list Z -> val) : handler := fun w n _ args =>
  match args with [VL a] => if wfb w n a then f w a else VBad | _ => VBad end.
Definition h_LL (f : Z -> list Z -> list Z -> val) : handler := fun w n _ args =>
  match args with [VL a; VL b] => if wfb w n a && wfb w n b then f w a b else VBad | _ => VBad end.
Definition h_LLL (f : Z -> list Z -> list Z -> list Z -> val) : handler := fun w n _ args =>
  match args with
  | [VL a; VL b; VL c] => if wfb w n a && wfb w n b && wfb w n c then f w a b c else VBad
  | _ => VBad end.
Definition h_LLB (f : Z -> list Z -> list Z -> bool -> val) : handler := fun w n _ args =>
  match args with [VL a; VL b; VB c] => if wfb w n a && wfb w n b then f w a b c else VBad | _ => VBad end.
Definition h_LZ (f : Z -> list Z -> Z -> val) : handler := fun w n _ args =>
  match args with [VL a; VZ z] => if wfb w n a then f w a z else VBad | _ => VBad end.
Definition h_LZB (f : Z -> list Z -> Z -> bool -> val) : handler := fun w n _ args =>
  match args with [VL a; VZ z; VB b] => if wfb w n a then f w a z b else VBad | _ => VBad end.
Definition h_Z (f : Z -> nat -> Z -> val) : handler := fun w n _ args =>
  match args with [VZ z] => f w n z | _ => VBad end.
Definition h_0 (f : Z -> nat -> val) : handler := fun w n _ args =>
  match args with [] => f w n | _ => VBad end.
(* same, with the build mode *)
Definition hd_L (f : bool -> Z -> list Z -> val) : handler := fun w n dbg args =>
  match args with [VL a] => if wfb w n a then f dbg w a else VBad | _ => VBad end.
Definition hd_LL (f : bool -> Z -> list Z -> list Z -> val) : handler := fun w n dbg args =>
  match args with [VL a; VL b] => if wfb w n a && wfb w n b then f dbg w a b else VBad | _ => VBad end.
Definition hd_LZ (f : bool -> Z -> list Z -> Z -> val) : handler := fun w n dbg args =>
  match args with [VL a; VZ z] => if wfb w n a then f dbg w a z else VBad | _ => VBad end.

Definition vL (l : list Z) : val := VL l.
Definition vOL (o : option (list Z)) : val := vopt VL o.
Definition vRL (o : outcome (list Z)) : val := vout VL o.
Definition vLB (p : list Z * bool) : val := vpairLB p.
Definition vLL (p : list Z * list Z) : val := vpairLL p.
Definition vcmp (c : comparison) : val := VZ (match c with Lt => -1 | Eq => 0 | Gt => 1 end).
(* out-of-fuel (never reached: the theorems show the fuel suffices) shows up as a protocol error *)
Definition vfuel {A} (f : A -> val) (o : option A) : val :=
  match o with Some a => f a | None => VBad end.
(* a raw byte list as a Coq string (constant names) *)
Definition string_of_bytes (l : list Z) : string :=
  fold_right (fun b s => String (Ascii.ascii_of_N (Z.to_N b)) s) EmptyString l.

(* Run/RunC01.v — operation table for property C01 (add/sub/neg/abs family). *)
From Bnum Require Import Base.
From Bnum.Model Require Import Core Shift AddSub.
From Bnum.Run Require Import RunBase.
From Coq Require Import String.
Open Scope string_scope.

Definition table_C01 : table := [
  ("U.overflowing_add", h_LL (fun w a b => vLB (U_overflowing_add w a b)));
  ("U.overflowing_sub", h_LL (fun w a b => vLB (U_overflowing_sub w a b)));
  ("U.overflowing_add_signed", h_LL (fun w a b => vLB (U_overflowing_add_signed w a b)));
  ("U.overflowing_neg", h_L (fun w a => vLB (U_overflowing_neg w a)));
  ("U.checked_add", h_LL (fun w a b => vOL (U_checked_add w a b)));
  ("U.checked_sub", h_LL (fun w a b => vOL (U_checked_sub w a b)));
  ("U.checked_add_signed", h_LL (fun w a b => vOL (U_checked_add_signed w a b)));
  ("U.checked_neg", h_L (fun w a => vOL (U_checked_neg a)));
  ("U.wrapping_add", h_LL (fun w a b => vL (U_wrapping_add w a b)));
  ("U.wrapping_sub", h_LL (fun w a b => vL (U_wrapping_sub w a b)));
  ("U.wrapping_add_signed", h_LL (fun w a b => vL (U_wrapping_add_signed w a b)));
  ("U.wrapping_neg", h_L (fun w a => vL (U_wrapping_neg w a)));
  ("U.saturating_add", h_LL (fun w a b => vL (U_saturating_add w a b)));
  ("U.saturating_sub", h_LL (fun w a b => vL (U_saturating_sub w a b)));
  ("U.saturating_add_signed", h_LL (fun w a b => vL (U_saturating_add_signed w a b)));
  ("U.strict_add", h_LL (fun w a b => vRL (U_strict_add w a b)));
  ("U.strict_sub", h_LL (fun w a b => vRL (U_strict_sub w a b)));
  ("U.strict_neg", h_L (fun w a => vRL (U_strict_neg a)));
  ("U.add", hd_LL (fun dbg w a b => vRL (U_add dbg w a b)));
  ("U.sub", hd_LL (fun dbg w a b => vRL (U_sub dbg w a b)));
  ("U.carrying_add", h_LLB (fun w a b c => vLB (U_carrying_add w a b c)));
  ("U.borrowing_sub", h_LLB (fun w a b c => vLB (U_borrowing_sub w a b c)));
  ("U.abs_diff", h_LL (fun w a b => vL (U_abs_diff w a b)));
  ("U.midpoint", hd_LL (fun dbg w a b => vRL (U_midpoint dbg w a b)));
  ("I.overflowing_add", h_LL (fun w a b => vLB (I_overflowing_add w a b)));
  ("I.overflowing_sub", h_LL (fun w a b => vLB (I_overflowing_sub w a b)));
  ("I.overflowing_add_unsigned", h_LL (fun w a b => vLB (I_overflowing_add_unsigned w a b)));
  ("I.overflowing_sub_unsigned", h_LL (fun w a b => vLB (I_overflowing_sub_unsigned w a b)));
  ("I.overflowing_neg", h_L (fun w a => vLB (I_overflowing_neg w a)));
  ("I.overflowing_abs", h_L (fun w a => vLB (I_overflowing_abs w a)));
  ("I.checked_add", h_LL (fun w a b => vOL (I_checked_add w a b)));
  ("I.checked_sub", h_LL (fun w a b => vOL (I_checked_sub w a b)));
  ("I.checked_add_unsigned", h_LL (fun w a b => vOL (I_checked_add_unsigned w a b)));
  ("I.checked_sub_unsigned", h_LL (fun w a b => vOL (I_checked_sub_unsigned w a b)));
  ("I.checked_neg", h_L (fun w a => vOL (I_checked_neg w a)));
  ("I.checked_abs", h_L (fun w a => vOL (I_checked_abs w a)));
  ("I.wrapping_add", h_LL (fun w a b => vL (I_wrapping_add w a b)));
  ("I.wrapping_sub", h_LL (fun w a b => vL (I_wrapping_sub w a b)));
  ("I.wrapping_add_unsigned", h_LL (fun w a b => vL (I_wrapping_add_unsigned w a b)));
  ("I.wrapping_sub_unsigned", h_LL (fun w a b => vL (I_wrapping_sub_unsigned w a b)));
  ("I.wrapping_neg", h_L (fun w a => vL (I_wrapping_neg w a)));
  ("I.wrapping_abs", h_L (fun w a => vL (I_wrapping_abs w a)));
  ("I.saturating_add", h_LL (fun w a b => vL (I_saturating_add w a b)));
  ("I.saturating_sub", h_LL (fun w a b => vL (I_saturating_sub w a b)));
  ("I.saturating_add_unsigned", h_LL (fun w a b => vL (I_saturating_add_unsigned w a b)));
  ("I.saturating_sub_unsigned", h_LL (fun w a b => vL (I_saturating_sub_unsigned w a b)));
  ("I.saturating_neg", h_L (fun w a => vL (I_saturating_neg w a)));
  ("I.saturating_abs", h_L (fun w a => vL (I_saturating_abs w a)));
  ("I.strict_add", h_LL (fun w a b => vRL (I_strict_add w a b)));
  ("I.strict_sub", h_LL (fun w a b => vRL (I_strict_sub w a b)));
  ("I.strict_neg", h_L (fun w a => vRL (I_strict_neg w a)));
  ("I.strict_abs", h_L (fun w a => vRL (I_strict_abs w a)));
  ("I.add", hd_LL (fun dbg w a b => vRL (I_add dbg w a b)));
  ("I.sub", hd_LL (fun dbg w a b => vRL (I_sub dbg w a b)));
  ("I.neg", hd_L (fun dbg w a => vRL (I_neg dbg w a)));
  ("I.abs", hd_L (fun dbg w a => vRL (I_abs dbg w a)));
  ("I.carrying_add", h_LLB (fun w a b c => vLB (I_carrying_add w a b c)));
  ("I.borrowing_sub", h_LLB (fun w a b c => vLB (I_borrowing_sub w a b c)));
  ("I.unsigned_abs", h_L (fun w a => vL (I_unsigned_abs w a)));
  ("I.abs_diff", h_LL (fun w a b => vL (I_abs_diff w a b)));
  ("I.midpoint", hd_LL (fun dbg w a b => vRL (I_midpoint dbg w a b)))
].

Definition run_C01 := run_table table_C01.

(* Run/RunC13.v — operation table for property C13 (checked conversions).  Hand-written: the operations
   involve two configurations / a primitive type, passed as leading arguments (same scheme as Run/RunC09.v):
     try_to_prim   <w> <n> Z:<bits> B:<prim_signed> B:<src_signed> L:<digits>     TryFrom<bnum> for u8..u128, i8..i128
     try_to_size   <w> <n> B:<prim_signed> B:<src_signed> L:<digits>               TryFrom<bnum> for usize / isize (64 bit)
     conv_prim     <w> <n> Z:<bits> B:<prim_signed> B:<dst_signed> Z:<value>       From<uN> for BUint|BInt, From<iN> for BInt,
     conv_size     <w> <n> B:<prim_signed> B:<dst_signed> Z:<value>                TryFrom<iN> for BUint
     from_bool     <w> <n> B:<dst_signed> B:<value>
     from_char     <w> <n> Z:<code point>                                          (BUint only)
     btry_from     <w> <n> Z:<w'> Z:<n'> B:<src_signed> B:<dst_signed> L:<digits>  BTryFrom
     from_digits | from_array | into_array | digits  <w> <n> L:<digits>
     from_digit    <w> <n> Z:<digit>
   (for conv_* / from_*: <w> <n> is the TARGET configuration).  Ok(x) prints as x, Err(TryFromIntError) as Err:0. *)
From Bnum Require Import Base Prim.
From Bnum.Model Require Import Core Cast Convert.
From Bnum.Run Require Import RunBase.
From Coq Require Import String.
Open Scope string_scope.
Open Scope Z_scope.

Definition prim_in_range (pb : Z) (ps : bool) (v : Z) : bool :=
  if ps then inS (2 ^ pb) v else inU (2 ^ pb) v.

Definition vres {A} (f : A -> val) (r : result A) : val :=
  match r with Ok a => f a | Err => VErr 0 end.
Definition vRres {A} (f : A -> val) (o : outcome (result A)) : val := vout (vres f) o.

Definition h_try_to_prim : handler := fun w n dbg args =>
  match args with
  | [VZ pb; VB ps; VB ss; VL a] =>
      if wfb w n a && (0 <? pb) then vRres VZ (try_to_prim dbg pb ps w ss a) else VBad
  | _ => VBad
  end.
Definition h_try_to_size : handler := fun w n dbg args =>
  match args with
  | [VB ps; VB ss; VL a] => if wfb w n a then vRres VZ (try_to_prim dbg 64 ps w ss a) else VBad
  | _ => VBad
  end.
Definition h_conv_prim : handler := fun w n dbg args =>
  match args with
  | [VZ pb; VB ps; VB dsg; VZ v] =>
      if (0 <? pb) && prim_in_range pb ps v then vRres VL (conv_from_prim dbg pb ps w n dsg v) else VBad
  | _ => VBad
  end.
Definition h_conv_size : handler := fun w n dbg args =>
  match args with
  | [VB ps; VB dsg; VZ v] =>
      if prim_in_range 64 ps v then vRres VL (conv_from_prim dbg 64 ps w n dsg v) else VBad
  | _ => VBad
  end.
Definition h_from_bool : handler := fun w n _ args =>
  match args with
  | [VB dsg; VB b] => VL (if dsg then I_conv_from_bool n b else U_conv_from_bool n b)
  | _ => VBad
  end.
Definition h_from_char : handler := fun w n _ args =>
  match args with
  | [VZ c] =>
      if (0 <=? c) && (c <? 1114112) && negb ((55296 <=? c) && (c <? 57344))
      then vRL (U_conv_from_char w n c) else VBad
  | _ => VBad
  end.
Definition h_btry_from : handler := fun w n dbg args =>
  match args with
  | [VZ w'; VZ n'; VB ss; VB dsg; VL a] =>
      if wfb w n a && (0 <? w') && (0 <=? n') then vRres VL (btry_from dbg w w' (Z.to_nat n') ss dsg a) else VBad
  | _ => VBad
  end.
Definition h_from_digit : handler := fun w n _ args =>
  match args with
  | [VZ d] => if digit_okb w d then VL (from_digit n d) else VBad
  | _ => VBad
  end.

Definition table_C13 : table := [
  ("try_to_prim", h_try_to_prim);
  ("try_to_size", h_try_to_size);
  ("conv_prim", h_conv_prim);
  ("conv_size", h_conv_size);
  ("from_bool", h_from_bool);
  ("from_char", h_from_char);
  ("btry_from", h_btry_from);
  ("from_digits", h_L (fun w a => vL (digits (from_digits a))));
  ("from_array", h_L (fun w a => vL (digits (from_array a))));
  ("into_array", h_L (fun w a => vL (into_array (from_digits a))));
  ("digits", h_L (fun w a => vL (digits a)));
  ("from_digit", h_from_digit)
].

Definition run_C13 := run_table table_C13.

"""C11 — radix output is the canonical numeral and round-trips with parsing."""
from .common import *
import os
from .ops_c11 import OPS

PROP, BIN, RUNMOD, RUNFN = "C11", "c11", "RunC11", "run_C11"
MODES = [True, False]

STR_OPS = ["U.to_str_radix", "I.to_str_radix", "U.roundtrip_str", "I.roundtrip_str"]
DIG_OPS = ["U.to_radix_le", "U.to_radix_be", "I.to_radix_le", "I.to_radix_be",
           "U.roundtrip_le", "U.roundtrip_be", "I.roundtrip_le", "I.roundtrip_be"]
EXH_RADICES = [2, 3, 7, 8, 10, 16, 32, 36, 64, 128, 255, 256]
BAD_RADICES = [0, 1, 37, 38, 255, 256, 257, 258, 512, 1 << 16, (1 << 16) + 10, 1 << 31, (1 << 32) - 1, (1 << 32) - 246]


def radix_base_half(w, r):
    """mirror of BUint::radix_base_half (reference for chunk-boundary values only)"""
    half = ((1 << w) - 1) >> (w // 2)
    base, power = r, 1
    while base * r < (1 << w) and base * r <= half:
        base *= r
        power += 1
    return base, power


def from_radix_digits(ds, r):
    v = 0
    for d in reversed(ds):
        v = v * r + d
    return v


def structured_values(rng, w, n, r, count):
    """values that exercise the branches of to_radix_le for radix r on a (w, n) type"""
    bits = w * n
    M = 1 << bits
    base, power = radix_base_half(w, r) if r < (1 << w) else (r, 1)
    kmax = 0
    while r ** (kmax + 1) < M:
        kmax += 1
    cmax = 0
    while base ** (cmax + 1) < M:
        cmax += 1
    fixed = [0, 1, M - 1, M >> 1, (M >> 1) - 1, r % M, (r - 1) % M, r ** kmax, r ** kmax - 1, (r ** kmax + 1) % M]
    out = []
    for _ in range(count):
        t = rng.below(16)
        if t < 2:
            v = rng.choice(fixed)
        elif t < 4:
            k = rng.below(kmax + 1)
            v = r ** k + rng.below(3) - 1
        elif t == 4:
            # chunk boundaries of the repeated division: base^j + {-1,0,1}, q*base^j
            j = rng.below(cmax + 1)
            v = base ** j * (rng.below(r) + 1 if rng.chance(1, 2) else 1) + rng.below(3) - 1
        elif t == 5:
            # interior zero chunks: hi * base^(j+g) + lo with lo < base^j
            j = rng.below(cmax + 1)
            g = rng.below(3) + 1
            lo = rng.bits(bits) % (base ** j) if j else 0
            if rng.chance(1, 2):
                lo = rng.below(r)
            v = (rng.bits(rng.below(bits) + 1) * base ** (j + g) + lo)
        elif t == 6:
            # random radix-r digit string with runs of zeros and of r-1
            ln = rng.below(kmax + 1) + 1
            ds = []
            while len(ds) < ln:
                run = rng.below(4) + 1
                d = rng.choice([0, 0, r - 1, 1, rng.below(r)])
                ds += [d] * run
            ds = ds[:ln]
            if ds[-1] == 0:
                ds[-1] = rng.below(r - 1) + 1
            v = from_radix_digits(ds, r)
        elif t == 7:
            # a single radix digit / a single big digit / just above one big digit
            v = rng.choice([rng.below(r), rng.bits(w), (1 << w) + rng.below(r), (1 << w) - 1 - rng.below(2),
                            (1 << w) * (rng.below(r) + 1)])
        elif t == 8:
            # big-digit boundaries 2^(w k) + d, zero big digits in the middle
            k = rng.below(n)
            v = (1 << (w * k)) * (rng.below(1 << w) if rng.chance(1, 2) else 1) + rng.below(5) - 2
            if rng.chance(1, 3):
                v += gen_digit(rng, w) << (w * (n - 1))
        elif t == 9:
            # small negative values (signed strings) and values around MIN
            v = rng.choice([M - 1 - rng.below(r * r + 2), (M >> 1) + rng.below(3) - 1, M - r ** rng.below(kmax + 1)])
        elif t == 10:
            # sparse bit patterns: few set bits, so many radix-2^k digits are zero
            v = 0
            for _ in range(rng.below(4) + 1):
                v |= 1 << rng.below(bits)
        else:
            v = gen_value(rng, w, n)
        out.append(v % M)
    return out


SWEEP = True      # thorough tier: the binary is built with the cargo feature `sweep` (tools/ops/C11.ops: @sweep)


def sweep_cases(rng):
    """EVERY width 8, 16, ..., 8192 bits (u8 digits, N = 1..=1024).  The model of the printing code is cubic in the width,
    so: up to 2400 bits, MAX / 10^(L-1) / MIN / a random value against the model (radix 10 and a rotating radix); above, at
    every width the implementation-side round trip parse(print(x)) == x of MAX and of a random value (the parser is compared
    with its model at every width by C10's sweep) and at every 8th width MAX in radix 10 against the model."""
    out = []
    std = {n for (w, n) in CONFIGS_ALL if w == 8}
    others = [3, 5, 6, 7, 9, 11, 12, 13, 14, 15, 17, 19, 20, 21, 23, 24, 26, 29, 30, 31, 33, 35, 36]
    for n in range(1, 1025):
        if n in std:
            continue
        bits = 8 * n
        M = 1 << bits
        L = len(str(M - 1))
        rv = rng.bits(bits) | (1 << (bits - 1))
        if n <= 300:
            r2 = others[n % len(others)]
            for v, r in ((M - 1, 10), (10 ** (L - 1), 10), (10 ** (L - 1) - 1, 10), (rv, 10), (M - 1, r2), (rv, r2)):
                out.append(fmt_line("U.to_str_radix", 8, n, [v, r], "LZ"))
            out.append(fmt_line("I.to_str_radix", 8, n, [M >> 1, 10], "LZ"))
            out.append(fmt_line("I.to_str_radix", 8, n, [(M >> 1) - 1, r2], "LZ"))
            out.append(fmt_line("U.to_radix_le", 8, n, [M - 1, 10], "LZ"))
            out.append(fmt_line("U.to_radix_le", 8, n, [rv, 200 + n % 57], "LZ"))
        elif n % 8 == 0:
            out.append(fmt_line("U.to_str_radix", 8, n, [M - 1, 10], "LZ"))
        for v, r in ((M - 1, 10), (rv, 10), (10 ** (L - 1), 10), (rv, others[n % len(others)])):
            out.append(fmt_line("U.roundtrip_str", 8, n, [v, r], "LZ"))
    return out


def gen(rng, tier):
    thorough = tier == "thorough"
    configs = CONFIGS_ALL if thorough else CONFIGS_QUICK
    out = []
    if thorough:
        out += sweep_cases(rng)
        if os.environ.get("VERIF_ONLY_SWEEP") == "1":       # development knob: the width sweep alone
            return out
    turn = 0
    for (w, n) in configs:
        bits = w * n
        if bits > 2000:
            per_d, per_s = 1, 2
        elif bits > 600:
            per_d, per_s = (6, 12) if thorough else (2, 4)
        else:
            per_d, per_s = (24, 48) if thorough else (6, 16)
        for r in range(2, 257):
            for v in structured_values(rng, w, n, r, per_d):
                # every value goes to one model op and one round-trip op, rotating over the ops
                turn += 1
                out.append(fmt_line(DIG_OPS[turn % 4], w, n, [v, r], "LZ"))
                out.append(fmt_line(DIG_OPS[4 + (turn // 4) % 4], w, n, [v, r], "LZ"))
            if r <= 36:
                for v in structured_values(rng, w, n, r, per_s):
                    turn += 1
                    out.append(fmt_line(STR_OPS[turn % 2], w, n, [v, r], "LZ"))
                    out.append(fmt_line(STR_OPS[2 + (turn // 2) % 2], w, n, [v, r], "LZ"))
        # out-of-range radices: every op
        for op in STR_OPS + DIG_OPS:
            bad = BAD_RADICES if bits <= 600 else BAD_RADICES[:6]
            for r in bad + ([rng.below(1 << 32)] if bits <= 600 else []):
                out.append(fmt_line(op, w, n, [rng.choice([0, 1, gen_value(rng, w, n)]), r], "LZ"))
    if thorough:
        # all 8-bit values: every radix, every op; all 16-bit values: a few radices covering every branch
        for r in range(2, 257):
            for v in range(256):
                for op in DIG_OPS[:4] + ([STR_OPS[0], STR_OPS[1]] if r <= 36 else []):
                    out.append(fmt_line(op, 8, 1, [v, r], "LZ"))
        for r in EXH_RADICES:
            for v in range(65536):
                out.append(fmt_line("U.to_radix_le", 8, 2, [v, r], "LZ"))
                if r <= 36:
                    out.append(fmt_line("I.to_str_radix", 8, 2, [v, r], "LZ"))
                    out.append(fmt_line("U.to_str_radix", 16, 1, [v, r], "LZ"))
                else:
                    out.append(fmt_line("U.to_radix_be", 16, 1, [v, r], "LZ"))
    else:
        for r in EXH_RADICES:
            for v in range(256):
                out.append(fmt_line("U.to_radix_le", 8, 1, [v, r], "LZ"))
                if r <= 36:
                    out.append(fmt_line("I.to_str_radix", 8, 1, [v, r], "LZ"))
    return spread_heavy(out)


def spread_heavy(cases):
    """the driver shards the case list in contiguous blocks: spread the expensive (multi-thousand-bit) cases
    evenly through the list so that no shard gets all of them"""
    heavy = [c for c in cases if c.split(" ", 3)[1:3] == ["64", "128"]]
    light = [c for c in cases if c.split(" ", 3)[1:3] != ["64", "128"]]
    if not heavy:
        return cases
    step = max(1, len(light) // len(heavy))
    res = []
    for i, h in enumerate(heavy):
        res.extend(light[i * step:(i + 1) * step])
        res.append(h)
    res.extend(light[len(heavy) * step:])
    return res


def exhaustive(tier):
    return tier == "thorough"


RULE = ("every radix 2..=256 (2..=36 for strings) enumerated x every configuration x structured values: 0, 1, MAX/-1, MIN, "
        "r^k + {-1,0,1} for every k that fits, chunk boundaries base^j + {-1,0,1} of the repeated division (base = "
        "radix_base_half), values with interior zero chunks / runs of zero and r-1 digits, single radix digit, single big "
        "digit and 2^(w k) + d boundaries, small negatives, sparse bit patterns, the boundary-biased mixture; each value is "
        "run through one of to_radix_le/be (U/I) or to_str_radix (U/I) against the model and through one parse(print(x)) == x "
        "round-trip op (expected true); out-of-range radices 0, 1, 37, 257, .., u32::MAX on every op (expected Panic); "
        "quick adds all 8-bit values x 12 radices, thorough all 8-bit values x every radix x every op and all 16-bit "
        "values x radices 2,3,7,8,10,16,32,36,64,128,255,256 on (8,2) and (16,1). "
        "Non-trivial = output of at least two digits, or Panic, or a round trip of a value >= radix.")


def nontrivial(case, result):
    if result == "Panic":
        return True
    toks = case.split(" ")
    if "roundtrip" in toks[0]:
        w = int(toks[1])
        return from_digits(parse_L(toks[3]), w) >= int(toks[4][2:], 16)
    return result.startswith("L:") and result.count(",") >= 1


def prebuild(root):
    """translators: regenerate coq/Generated/ParseGen.v (radix_base_half is tied to the model in Proofs/ParseGenTieHalf.v) and
    coq/Generated/PrintGen.v (the radix output code; tied to Model/RadixOut.v in Proofs/PrintGenTie*.v,
    theorem C11_print_rs_matches_model)"""
    return run_translator(root, "rs2v_parse.py", "C11") or run_translator(root, "rs2v_print.py", "C11")

"""C12 — the formatting traits print what Rust prints for a primitive of the same value.
Protocol: coq/Run/RunC12.v; Rust side harness/src/bin/c12.rs (+ generated harness/src/c12_table.rs)."""
from .common import *

PROP, BIN, RUNMOD, RUNFN = "C12", "c12", "RunC12", "run_C12"
# no cfg(debug_assertions) dependence in the formatting code itself, but to_str_radix / unsigned_abs below it
# have debug/release arithmetic: both modes are run
MODES = [True, False]

EXTRA_TRUSTED = [
    "coq/Model/Fmt.v pad_integral_ref: std's core::fmt::Formatter::pad_integral (+ Formatter::padding) is modelled "
    "(transcribed by hand: sign, '#' prefix, '0' sign-aware zero padding, width/fill/alignment with Right as default), "
    "not verified; validated against the real formatter on every run (every U.fmt / I.fmt case compares whole output "
    "strings produced through the real pad_integral; U.cmp_prim / I.cmp_prim compare bnum with u8..u128 / i8..i128 "
    "under the same format string).  The theorems are about the (is_nonnegative, prefix, body) triple bnum hands to "
    "pad_integral and hold for every pad_integral that is the identity without flags",
    "coq/Model/Fmt.v fmt_prim / fmt_prim_pad / fmt_usize: std's `{:x}` `{:X}` `{:b}` `{:01$x}` `{}` of a primitive "
    "unsigned integer are modelled as its canonical numeral, zero-padded on the left to the given width",
    "that a primitive integer prints pad_integral(is_nonnegative, prefix, canonical numeral) (exponent forms: "
    "pad_formatted_parts) is std's behaviour: tested by the *.cmp_prim operations for all widths <= 128 bits, not proved",
]
ASSUMPTIONS = ["precision (`{:.3e}`) and `{:x?}` / `{:X?}` are outside the property's flag list and outside the check"]

TRAITS = ["Display", "Debug", "Binary", "Octal", "LowerHex", "UpperHex", "LowerExp", "UpperExp"]
PREFIX = ["", "", "0b", "0o", "0x", "0x", "", ""]


def flag_ok(fl):
    fill, align = fl & 3, (fl >> 2) & 3
    return fill != 3 and not (align == 0 and fill != 0)


FLAGS_W = [fl for fl in range(128) if flag_ok(fl)]            # 80 codes with a width
FLAGS_NW = [fl | 128 for fl in FLAGS_W]                       # 80 codes without
PRIM_BITS = (8, 16, 32, 64, 128)


def ref_triple(tr, signed, v, bits):
    """(is_nonnegative, prefix, body) — used only to aim the widths around the body length and for `nontrivial`;
    the reference the implementation is compared with is the Coq model"""
    M = 1 << bits
    sv = v - M if signed and (v >> (bits - 1)) else v
    if tr in (0, 1):
        return sv >= 0, "", str(abs(sv))
    if tr == 2:
        return True, "0b", format(v, "b")
    if tr == 3:
        return True, "0o", format(v, "o")
    if tr == 4:
        return True, "0x", format(v, "x")
    if tr == 5:
        return True, "0x", format(v, "X")
    s = str(abs(sv))
    t = s.rstrip("0") or "0"
    e = "e" if tr == 6 else "E"
    body = t[0] + ("." + t[1:] if len(t) > 1 else "") + e + str(len(s) - 1)
    return sv >= 0, "", body


def pick_width(rng, kind, tr, signed, v, bits, fl):
    nn, pre, body = ref_triple(tr, signed, v, bits)
    blen = len(body)
    total = blen + (1 if (not nn or (fl >> 4) & 1) else 0) + (len(pre) if (fl >> 5) & 1 else 0)
    ks = [0, 1, blen - 1, blen, blen + 1, total - 1, total, total + 1, total + 2, total + 3, total + 8,
          rng.below(256), 255, rng.below(48), total + rng.below(12)]
    return max(0, min(255, ks[kind % len(ks)]))


N_WIDTH_KINDS = 15


def rk(rng, r, M):
    """r^k + {-1, 0, 1} for a k that fits"""
    kmax = 0
    while r ** (kmax + 1) < M:
        kmax += 1
    k = kmax if rng.chance(1, 4) else rng.below(kmax + 1)
    return r ** k + rng.below(3) - 1


def structured_value(rng, kind, w, n):
    bits = w * n
    M = 1 << bits
    mx = (1 << w) - 1
    k = kind % 14
    if k == 0:
        v = rng.choice([0, 1, M - 1, M >> 1, (M >> 1) - 1, (M >> 1) + 1, M - 2, 7, 8, 9, 10, 15, 16, 99, 100])
    elif k == 1:
        v = rk(rng, 10, M)
    elif k == 2:
        v = rk(rng, 16, M)
    elif k == 3:
        v = rk(rng, rng.choice([2, 8]), M)
    elif k == 4:
        # trailing decimal zeros (exponent-form trimming): m * 10^j
        m = rng.choice([rng.below(9) + 1, rng.below(990) + 10, 1200300, 101, 5, 10 ** rng.below(4) + 1])
        j = 0
        while m * 10 ** (j + 1) < M:
            j += 1
        v = m * 10 ** (rng.below(j + 1)) if m < M else rng.below(M)
    elif k == 5:
        # interior all-zero digits: non-zero top part, a run of zero digits, then anything
        hi = rng.below(n) + 1                        # number of digits up to and including the top non-zero one
        ds = [0] * n
        ds[hi - 1] = rng.choice([1, mx, gen_digit(rng, w) or 1, 1 << (w - 1), 0x10 % (mx + 1) or 1])
        lo = rng.below(hi)
        for i in range(lo):
            ds[i] = rng.choice([0, 0, 1, gen_digit(rng, w), rng.bits(rng.below(w) + 1)])
        v = from_digits(ds, w)
    elif k == 6:
        # every digit with leading zero nibbles / bits
        v = from_digits([rng.bits(rng.below(w) + 1) if rng.chance(3, 4) else 0 for _ in range(n)], w)
    elif k == 7:
        # digits from {0, 1, 0x0f, 0x10, 8, MAX}
        v = from_digits([rng.choice([0, 1, 0xf, 0x10, 8, mx, 1 << (w - 4), (1 << (w - 4)) - 1]) for _ in range(n)], w)
    elif k == 8:
        # a single decimal / hex / octal / binary digit, a single big digit, just above one big digit
        v = rng.choice([rng.below(10), rng.below(16), rng.below(8), rng.below(2), rng.bits(w), (1 << w) % M,
                        ((1 << w) + rng.below(16)) % M])
    elif k == 9:
        # 2^(w k) + d: all lower digits zero or all ones
        j = rng.below(n)
        v = ((1 << (w * j)) * rng.choice([1, 1, gen_digit(rng, w) or 1]) + rng.below(5) - 2) % M
    elif k == 10:
        # small magnitudes (negative when read as signed after the flip below)
        v = rng.bits(rng.below(min(bits, 40)) + 1)
    elif k == 11:
        # around the signed boundary and the top
        v = (rng.choice([M >> 1, M - 1, 0]) + rng.below(33) - 16) % M
    elif k == 12:
        v = rng.bits(bits)
    else:
        v = gen_value(rng, w, n)
    return v % M


N_VALUE_KINDS = 14


def line(op, w, n, v, tr, fl, width):
    return "%s %d %d %s %s %s %s" % (op, w, n, tokV(v, w, n), tokZ(tr), tokZ(fl), tokZ(width))


def cmp_ok(bits, signed, tr):
    """does a primitive exist to compare with? (see harness/src/bin/c12.rs prim_fmt)"""
    if bits > 128:
        return False
    return not (signed and 2 <= tr <= 5 and bits not in PRIM_BITS)


def gen(rng, tier):
    thorough = tier == "thorough"
    configs = CONFIGS_ALL if thorough else CONFIGS_QUICK
    out = []
    turn = 0
    for (w, n) in configs:
        bits = w * n
        M = 1 << bits
        heavy = bits > 2000
        reps = 1 if heavy else (4 if thorough else 2)
        for signed in (False, True):
            pre = "I" if signed else "U"
            for tr in range(8):
                # every flag combination enumerated: the 80 with a width `reps` times, the 80 without once
                codes = FLAGS_W * reps + ([] if heavy else FLAGS_NW)
                for fl in codes:
                    turn += 1
                    v = structured_value(rng, turn, w, n)
                    if signed and rng.chance(1, 2):
                        v = (M - v) % M
                    wd = 0 if fl & 128 else pick_width(rng, turn // N_VALUE_KINDS + turn, tr, signed, v, bits, fl)
                    out.append(line(pre + ".fmt", w, n, v, tr, fl, wd))
                    if cmp_ok(bits, signed, tr):
                        # the same case against the primitive, and a second value
                        out.append(line(pre + ".cmp_prim", w, n, v, tr, fl, wd))
                        v2 = structured_value(rng, turn + 5, w, n)
                        if signed and rng.chance(1, 2):
                            v2 = (M - v2) % M
                        wd2 = 0 if fl & 128 else pick_width(rng, turn + 3, tr, signed, v2, bits, fl)
                        out.append(line(pre + ".cmp_prim", w, n, v2, tr, fl, wd2))
    # exhaustive small spaces
    # plain (no width) | `+#0w$` w=12 | `*^+#w$` w=13 | `#` no width | `0w$` w=9 | `*<+w$` w=11
    ex_flags = [(0x80, 0), (0x70, 12), (0x39, 13), (0xa0, 0), (0x40, 9), (0x15, 11)]
    assert all(flag_ok(fl & 127) for fl, _ in ex_flags)
    for tr in range(8):
        for signed in (False, True):
            pre = "I" if signed else "U"
            for v in range(256):
                for fl, wd in (ex_flags if thorough else ex_flags[:3]):
                    out.append(line(pre + ".fmt", 8, 1, v, tr, fl, wd))
                    out.append(line(pre + ".cmp_prim", 8, 1, v, tr, fl, wd))
    if thorough:
        # all 16-bit values, (8,2) and (16,1), against the model (hex, binary: the digit-by-digit assembly) and against u16 / i16
        for v in range(65536):
            out.append(line("U.fmt", 8, 2, v, 4, 0x80, 0))
            out.append(line("I.fmt", 8, 2, v, 2, 0x80, 0))
            out.append(line("U.cmp_prim", 8, 2, v, 5, 0x60, 6))
            out.append(line("I.cmp_prim", 8, 2, v, 0, 0x10, 0))
            out.append(line("I.cmp_prim", 8, 2, v, 6, 0x80, 0))
            out.append(line("U.cmp_prim", 16, 1, v, 7, 0x80, 0))
            out.append(line("I.cmp_prim", 16, 1, v, 4, 0xa0, 0))
            out.append(line("U.cmp_prim", 16, 1, v, 3, 0xa0, 0))
    return spread_heavy(out)


def spread_heavy(cases):
    """the driver shards the case list in contiguous blocks: spread the expensive (multi-thousand-bit) cases"""
    heavy = [c for c in cases if c.split(" ", 3)[1:3] == ["64", "128"]]
    light = [c for c in cases if c.split(" ", 3)[1:3] != ["64", "128"]]
    if not heavy:
        return cases
    step = max(1, len(light) // len(heavy))
    res = []
    for i, h in enumerate(heavy):
        res.extend(light[i * step:(i + 1) * step])
        res.append(h)
    res.extend(light[len(heavy) * step:])
    return res


def exhaustive(tier):
    return tier == "thorough"


RULE = ("every configuration of the standard table (8..1088 bits, thorough: 8192) x U/I x the 8 traits x EVERY flag "
        "combination enumerated (fill ' ' '*' '0' x alignment none < ^ > (a fill needs an alignment) x '+' x '#' x '0': "
        "80 combinations with a width, the same 80 without), each with a structured value (0, 1, MAX/-1, MIN, "
        "r^k + {-1,0,1} for r in 2, 8, 10, 16, m*10^j with trailing decimal zeros, interior all-zero digits, digits with "
        "leading zero nibbles / bits, digits from {0,1,0xf,0x10,MAX,..}, a single numeral digit, a single big digit, "
        "2^(w k) + d, small magnitudes, around MIN and -1, random, the boundary-biased mixture; negated half of the "
        "time for the signed types) and a width from {0, 1, len(body)-1, len(body), len(body)+1, total-1, total, "
        "total+1, total+2, total+3, total+8, 255, random < 48, random < 256} (total = body + sign + prefix); U.fmt / "
        "I.fmt compare the whole output string with the model composed with pad_integral_ref; for bit widths <= 128 "
        "the same case and a second one go through U.cmp_prim / I.cmp_prim (bnum vs the primitive integer of the same "
        "value under the same format string, expected equal).  All 8-bit values x 8 traits x U/I x 3 (thorough 6) flag "
        "sets on both op families; thorough: all 16-bit values on (8,2) / (16,1) for hex, binary, octal, decimal and "
        "exponent forms.  Non-trivial = an output of at least two bytes / a compared bit pattern other than 0 and 1.")


def nontrivial(case, result):
    toks = case.split(" ")
    if toks[0].endswith("cmp_prim"):
        w = int(toks[1])
        v = from_digits(parse_L(toks[3]), w)
        return v >= 2
    return result.startswith("L:") and result.count(",") >= 1


def prebuild(root):
    """translator: regenerate coq/Generated/FmtGen.v (the fmt impls of src/buint/fmt.rs and src/bint/fmt.rs, tied to Model/Fmt.v
    in Proofs/FmtGenTie.v, theorem C12_fmt_rs_matches_model)"""
    return run_translator(root, "rs2v_fmt.py", "C12")

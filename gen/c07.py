"""C07 — comparison, equality, hashing, sign predicates."""
from .common import *
from .ops_c07 import OPS

PROP, BIN, RUNMOD, RUNFN = "C07", "c07", "RunC07", "run_C07"
MODES = [True, False]


def gen_lists(rng, op, w, n, count):
    bits = w * n
    M = 1 << bits
    a = gen_value(rng, w, n)
    r = rng.below(10)
    if r < 3:
        # share the k top digits, differ below
        k = rng.below(n + 1)
        da = to_digits(a, w, n)
        db = list(da)
        for i in range(n - k):
            db[i] = gen_digit(rng, w)
        if n - k > 0 and rng.chance(1, 2):
            i = n - k - 1
            db[i] = (da[i] + rng.choice([1, -1])) % (1 << w)
        b = from_digits(db, w)
    elif r == 3:
        b = (M - a) % M            # +-x
    elif r == 4:
        b = a
    elif r == 5:
        b = a ^ (1 << (bits - 1))  # differ in the sign bit only
    elif r == 6:
        b = (a + rng.below(3) - 1) % M
    else:
        b = gen_value(rng, w, n)
    vs = [a, b]
    while len(vs) < count:
        c = rng.choice([a, b, gen_value(rng, w, n), (a + 1) % M, (b - 1) % M])
        vs.append(c)
    if count == 3 and rng.chance(2, 3):
        # clamp(x, lo, hi): make lo <= hi most of the time (else it panics)
        signed_op = op.startswith("I.")
        key = (lambda v: signed(v, bits)) if signed_op else (lambda v: v)
        lo, hi = sorted(vs[1:3], key=key)
        vs = [vs[0], lo, hi]
    if count == 1:
        # sign predicates: zero top digit with non-zero lower digits, etc.
        r2 = rng.below(6)
        if r2 == 0 and n > 1:
            vs = [from_digits([gen_digit(rng, w) for _ in range(n - 1)] + [0], w)]
        elif r2 == 1:
            vs = [rng.choice([0, 1, M - 1, M >> 1, (M >> 1) - 1])]
    return vs[:count]


def gen(rng, tier):
    thorough = tier == "thorough"
    out = std_gen(rng, tier, OPS, CONFIGS_ALL if thorough else CONFIGS_QUICK, 250 if thorough else 36, gen_lists=gen_lists, big_divisor=10)
    if thorough:
        out += exhaustive8({k: v for k, v in OPS.items() if v != "LLL"})
    return out


def exhaustive(tier):
    return tier == "thorough"


RULE = ("per op x config: boundary grid, pairs sharing the k most significant digits and differing below (by +-1 in the "
        "deciding digit), +-x pairs, pairs differing in the sign bit only, equal pairs, neighbours; clamp triples mostly "
        "ordered (unordered bounds panic); sign predicates on values with a zero top digit and non-zero lower digits; "
        "hash equality on the real DefaultHasher; thorough adds all 2^16 pairs at 8 bits. Non-trivial = operands differ "
        "and share at least the top digit, or differ in sign, or Panic.")


def nontrivial(case, result):
    if "Panic" in result:
        return True
    toks = case.split(" ")
    ls = [parse_L(t) for t in toks[3:] if t.startswith("L:")]
    w = int(toks[1])
    if len(ls) >= 2:
        a, b = ls[0], ls[1]
        if a != b and (a[-1] == b[-1] or (a[-1] >> (w - 1)) != (b[-1] >> (w - 1))):
            return True
        return False
    return ls[0][-1] in (0, (1 << w) - 1, 1 << (w - 1))


def prebuild(root):
    """translator: regenerate coq/Generated/Glue.v from /repo/src (proved equal to the model in Proofs/GlueTieC07.v)"""
    return run_translator(root, "rs2v_glue.py", "C07")

"""C06 — bitwise logic, counts, bit manipulation."""
from .common import *
from .ops_c06 import OPS

PROP, BIN, RUNMOD, RUNFN = "C06", "c06", "RunC06", "run_C06"
MODES = [True, False]


def gen_z(rng, op, w, n, k):
    bits = w * n
    r = rng.below(8)
    if r < 5:
        return rng.below(bits)
    if r == 5:
        return max(0, rng.below(n + 1) * w + rng.below(3) - 1)
    if r == 6:
        return rng.choice([bits - 1, 0, 1, w - 1, w])
    # past the end: the real code indexes the digit array -> panic when the digit index is out of range
    return bits + rng.below(2 * w)


def gen_lists(rng, op, w, n, count):
    bits = w * n
    M = 1 << bits
    r = rng.below(8)
    vs = []
    for _ in range(count):
        if r < 3:
            # k extreme digits then a partial digit (the counting-loop shape)
            k = rng.below(n + 1)
            ext = rng.choice([0, (1 << w) - 1])
            ds = [ext] * k
            if k < n:
                part = rng.choice([rng.bits(rng.below(w) + 1), ((1 << w) - 1) ^ rng.bits(rng.below(w) + 1),
                                   1 << rng.below(w), ((1 << w) - 1) ^ (1 << rng.below(w))])
                ds.append(part)
            while len(ds) < n:
                ds.append(rng.choice([0, (1 << w) - 1, gen_digit(rng, w)]))
            v = from_digits(ds[:n], w)
            if rng.chance(1, 2):
                # same shape from the top
                v = from_digits(list(reversed(ds[:n])), w)
            vs.append(v)
        elif r == 3:
            k = rng.below(bits)
            vs.append(rng.choice([1 << k, (1 << k) + 1, (1 << k) - 1, ((1 << k) | 1), (1 << k) | (1 << rng.below(bits))]) % M)
        else:
            vs.append(gen_value(rng, w, n))
    return vs


def gen(rng, tier):
    thorough = tier == "thorough"
    out = std_gen(rng, tier, OPS, CONFIGS_ALL if thorough else CONFIGS_QUICK, 250 if thorough else 40, gen_z=gen_z,
                  gen_lists=gen_lists, big_divisor=10)
    if thorough:
        # 16-bit exhaustive for unary ops at (8,2) and (16,1)
        for op, sig in OPS.items():
            if sig == "L":
                for (w, n) in ((8, 2), (16, 1)):
                    for v in range(65536):
                        out.append(fmt_line(op, w, n, [v], sig))
        # every bit index on boundary values
        for (w, n) in ((8, 3), (16, 2), (32, 3), (64, 2)):
            for v in boundary_values(w, n):
                for i in range(w * n):
                    out.append(fmt_line("U.bit", w, n, [v, i], "LZ"))
                    out.append(fmt_line("U.set_bit", w, n, [v, i, True], "LZB"))
                    out.append(fmt_line("U.set_bit", w, n, [v, i, False], "LZB"))
            for i in range(w * n):
                out.append(fmt_line("U.power_of_two", w, n, [i], "Z"))
    return out


def exhaustive(tier):
    return tier == "thorough"


RULE = ("per op x config: boundary grid, runs of k all-zero/all-one digits followed by a partial digit (from the bottom and "
        "from the top), single bits, two bits, and the general mixture; bit indices at every digit boundary and past the "
        "end; thorough adds all 2^16 values for every unary op at (8,2) and (16,1) and every bit index on boundary values. "
        "Non-trivial = operand with at least one all-zero or all-one digit next to a mixed digit, or an index in a digit "
        "other than digit 0, or Panic/None.")


def nontrivial(case, result):
    if "Panic" in result or "None" in result:
        return True
    toks = case.split(" ")
    w = int(toks[1])
    for t in toks[3:]:
        if t.startswith("L:"):
            ds = parse_L(t)
            ext = [d in (0, (1 << w) - 1) for d in ds]
            if any(ext) and not all(ext):
                return True
        if t.startswith("Z:") and int(t[2:], 16) >= w:
            return True
    return False


def prebuild(root):
    """translator: regenerate coq/Generated/Loops.v from /repo/src/buint/*.rs (proved equal to the model in Proofs/LoopsTieC06.v)"""
    return run_translator(root, "rs2v_loops.py", "C06") or run_translator(root, "rs2v_glue.py", "C06")

"""C03 — division and remainder."""
from .common import *
from .ops_c03 import OPS

PROP, BIN, RUNMOD, RUNFN = "C03", "c03", "RunC03", "run_C03"
MODES = [True, False]


def gen_lists(rng, op, w, n, count):
    bits = w * n
    M = 1 << bits
    Bw = 1 << w
    is_signed = op.startswith("I.")
    r = rng.below(16)
    if r < 2:
        a, b = gen_pair(rng, w, n)
    elif r < 5:
        # dividend built as q*d + r0 with d of k digits
        k = rng.below(n) + 1
        d = gen_value(rng, w, k) % (1 << (w * k)) or 1
        q = gen_value(rng, w, n) % max(1, (M // d))
        r0 = rng.below(d) if rng.chance(2, 3) else rng.choice([0, d - 1, 1 % d])
        a = (q * d + r0) % M
        b = d
    elif r < 9 and n >= 2:
        # Knuth D stress: top divisor digit 2^(w-1) or MAX or small, second digit MAX/0; dividend just below d * B^j
        k = rng.below(n - 1) + 2          # divisor digits, >= 2
        top = rng.choice([Bw >> 1, Bw - 1, 1, (Bw >> 1) + 1, gen_digit(rng, w) or 1])
        second = rng.choice([Bw - 1, 0, Bw - 2, gen_digit(rng, w)])
        low = [gen_digit(rng, w) for _ in range(k - 2)]
        d = from_digits(low + [second, top], w)
        j = rng.below(n - k + 1)
        base = d << (w * j)
        choice = rng.below(5)
        if choice == 0:
            a = (base - 1 - rng.below(3)) % M
        elif choice == 1:
            a = (base + rng.below(3)) % M
        elif choice == 2:
            # u_jn == v_{n-1}: top digits equal
            a = from_digits([gen_digit(rng, w) for _ in range(j + k - 1)] + [top], w) % M
        elif choice == 3:
            q = rng.choice([Bw - 1, Bw - 2, Bw >> 1, gen_digit(rng, w)])
            a = (q * base + rng.below(max(1, base))) % M
        else:
            a = gen_value(rng, w, n)
        b = d % M or 1
    elif r == 9:
        b = rng.choice([0, 0, 1, M - 1, 2, M >> 1])         # zero divisor, +-1, MIN
        a = rng.choice([M >> 1, M - 1, 0, 1, gen_value(rng, w, n)])
    elif r == 10:
        a = M >> 1                                            # MIN / anything
        b = rng.choice([M - 1, 1, 2, M - 2, gen_value(rng, w, n), M >> 1])
    elif r == 11:
        b = gen_digit(rng, w) or 1                            # single-digit divisor
        a = gen_value(rng, w, n)
    elif r == 12:
        a = gen_value(rng, w, n)                              # equal / off by one
        b = (a + rng.below(3) - 1) % M
    elif r == 13:
        # exact multiples and multiples +-1 (floor / ceil / next_multiple_of boundaries)
        k = rng.below(min(bits - 1, 40)) + 1
        b = rng.bits(k) or 1
        q = rng.bits(max(1, bits - k - 2))
        a = (q * b + rng.choice([0, 0, 1, -1, b - 1])) % M
    elif r == 14:
        # next_multiple_of overflow boundary: a near MAX
        b = rng.bits(rng.below(min(bits - 1, 20)) + 1) or 3
        a = (M - 1 - rng.below(2 * b)) % M if not is_signed else ((M >> 1) - 1 - rng.below(2 * b)) % M
    else:
        a = gen_value(rng, w, n)
        b = gen_value(rng, w, n)
    if is_signed and r >= 2 and rng.chance(1, 2):
        a = (M - a) % M
    if is_signed and r >= 2 and rng.chance(1, 2):
        b = (M - b) % M
    return [a, b]


INTERNAL = ("U.int.div_rem_digit", "U.int.div_rem_unchecked", "U.int.basecase_div_rem", "U.int.last_digit_index", "I.int.div_rem_unchecked")


def ldi(v, w, n):
    ds = to_digits(v, w, n)
    idx = 0
    for i in range(1, n):
        if ds[i]:
            idx = i
    return idx


def gen_internal(rng, tier, configs):
    """internal functions through the hooks; preconditions of the callers respected (non-zero divisor;
    basecase_div_rem only for self > v with v of >= 2 digits, n = last_digit_index(v) + 1)"""
    out = []
    per = 120 if tier == "thorough" else 14
    for (w, n) in configs:
        k = per if w * n <= 1100 else 2
        M = 1 << (w * n)
        for _ in range(k):
            a = gen_value(rng, w, n)
            d = gen_digit(rng, w) or 1
            out.append(fmt_line("U.int.div_rem_digit", w, n, [a, d], "LZ"))
            out.append(fmt_line("U.int.last_digit_index", w, n, [a], "L"))
            x, y = gen_lists(rng, "U.checked_div", w, n, 2)
            if y % M:
                out.append(fmt_line("U.int.div_rem_unchecked", w, n, [x, y], "LL"))
                if n >= 2 and x > y and ldi(y, w, n) >= 1:
                    out.append(fmt_line("U.int.basecase_div_rem", w, n, [x, y, ldi(y, w, n) + 1], "LLZ"))
            x, y = gen_lists(rng, "I.checked_div", w, n, 2)
            if y % M:
                out.append(fmt_line("I.int.div_rem_unchecked", w, n, [x, y], "LL"))
    return out


def gen(rng, tier):
    thorough = tier == "thorough"
    configs = CONFIGS_ALL if thorough else CONFIGS_QUICK
    out = std_gen(rng, tier, {k: v for k, v in OPS.items() if k not in INTERNAL}, configs, 300 if thorough else 36,
                  gen_lists=gen_lists, big_divisor=40)
    out += gen_internal(rng, tier, configs)
    if thorough:
        out += exhaustive8({k: v for k, v in OPS.items() if k not in INTERNAL})   # internal ops have preconditions
        # (8,2) vs (8,2): all 16-bit dividends against a sample of divisors for the core ops (Knuth path at w=8)
        for op in ("U.checked_div", "U.checked_rem", "I.checked_div", "I.checked_rem"):
            for d in range(256, 65536, 97):
                for a in range(0, 65536, 13):
                    out.append(fmt_line(op, 8, 2, [a, d], "LL"))
    return out


def exhaustive(tier):
    return tier == "thorough"


RULE = ("per op x config: boundary grid, dividends built as q*d+r with chosen q, d, r; Knuth-D stress shapes (top divisor "
        "digit 2^(w-1)/MAX/1, second digit MAX/0, dividend just below/above d*B^j, equal top digits, quotient digit MAX); "
        "zero divisor, MIN/-1, MIN/x, single-digit divisors, equal operands, exact multiples +-1, next_multiple_of at the "
        "overflow boundary; signs randomised for signed ops; thorough adds all 2^16 pairs at 8 bits and a 16-bit sweep at "
        "(8,2). Non-trivial = divisor with >= 2 significant digits and dividend > divisor (Knuth path), or None/Panic/flag.")


def nontrivial(case, result):
    if "B:1" in result or "None" in result or "Panic" in result:
        return True
    toks = case.split(" ")
    w = int(toks[1])
    if len(toks) < 5 or not toks[4].startswith("L:"):
        return toks[0] != "U.int.last_digit_index"
    a = parse_L(toks[3])
    b = parse_L(toks[4])
    if toks[0].startswith("U."):
        return sum(1 for x in b[1:] if x) > 0 and from_digits(a, w) > from_digits(b, w)
    return len(b) > 1 and b[1:] != [0] * (len(b) - 1) and b[1:] != [(1 << w) - 1] * (len(b) - 1)


def prebuild(root):
    """translators: regenerate coq/Generated/DigitGen.v from /repo/src/digit.rs (proved equal to Model/Digit.v in
    Proofs/DigitTie.v) and coq/Generated/Glue.v from the one-line projection functions of /repo/src (proved equal to the
    hand-written model in Proofs/GlueTie.v), coq/Generated/Loops.v (Proofs/LoopsTieDiv.v) and coq/Generated/DivGen.v from
    /repo/src/buint/div.rs (Knuth D, proved equal to Model/Div.v: basecase_div_rem in Proofs/DivGenTie.v); the first
    translator error is returned"""
    return (run_translator(root, "rs2v_digit.py") or run_translator(root, "rs2v_glue.py", "C03") or run_translator(root, "rs2v_loops.py", "C03")
            or run_translator(root, "rs2v_div.py", "C03"))

"""C14 — float/integer casts (f32, f64 <-> BUint/BInt).  Floats travel as bit patterns."""
from .common import *
import os
from .ops_c14 import OPS

PROP, BIN, RUNMOD, RUNFN = "C14", "c14", "RunC14", "run_C14"
MODES = [True, False]

# format -> (float bits, mantissa digits p, emax)
FMT = {"f32": (32, 24, 128), "f64": (64, 53, 1024)}


def enc(fmt, sign, e_unb, frac):
    """bit pattern of the normal float (-1)^sign * 1.frac * 2^e_unb (frac = p-1 fraction bits)"""
    fb, p, emax = FMT[fmt]
    E = e_unb + emax - 1
    assert 1 <= E <= 2 * emax - 2, (fmt, e_unb)
    return (sign << (fb - 1)) | (E << (p - 1)) | (frac & ((1 << (p - 1)) - 1))


def raw(fmt, sign, E, frac):
    fb, p, emax = FMT[fmt]
    return (sign << (fb - 1)) | (E << (p - 1)) | (frac & ((1 << (p - 1)) - 1))


def int_values(rng, fmt, bits, per):
    """non-negative integers below 2^bits aimed at every branch of cast_float_from_uint"""
    fb, p, emax = FMT[fmt]
    M = 1 << bits
    vs = [0, 1, 2, 3, 5, 255, 256, M - 1, M - 2, M >> 1, (M >> 1) - 1, (M >> 1) + 1]
    lens = set([p - 1, p, p + 1, p + 2, p + 3, bits, bits - 1, 2 * p, 2 * p + 1])
    for _ in range(per):
        lens.add(rng.below(bits) + 1)
    lens = sorted(L for L in lens if 1 <= L <= bits)
    for L in lens:
        top = 1 << (L - 1)
        vs += [top, (top << 1) - 1, top | rng.bits(L - 1), top + 1]
        if L > p:
            sh = L - p
            half = 1 << (sh - 1)
            for m in (1 << (p - 1),                              # even, smallest mantissa
                      (1 << (p - 1)) | 1,                        # odd
                      (1 << p) - 1,                              # all ones: rounding up carries into the exponent
                      (1 << p) - 2,                              # even just below all ones
                      (1 << (p - 1)) | rng.bits(p - 1),
                      (1 << (p - 1)) | rng.bits(p - 1) | 1,
                      ((1 << (p - 1)) | rng.bits(p - 1)) & ~1):
                base = m << sh
                tie = base | half
                vs += [tie, tie - 1, tie + 1, base, base | (half - 1), base | half | (half >> 1)]
                if sh >= 2:
                    vs += [tie | (1 << rng.below(sh - 1)), base | ((1 << sh) - 1)]
                # sticky bit far below (in another digit), nothing between
                vs += [tie | 1, base | 1]
    if bits >= emax:
        T = (1 << emax) - (1 << (emax - p - 1))      # first value that rounds to infinity
        maxfin = (1 << emax) - (1 << (emax - p))
        vs += [T, T - 1, T + 1, maxfin, maxfin + 1, maxfin - 1, (1 << emax) - 1, T - (1 << (emax - p - 1)),
               T + rng.bits(emax - p - 2), maxfin + rng.bits(emax - p - 2)]
        if bits > emax:
            vs += [1 << emax, (1 << emax) + 1, (1 << emax) | rng.bits(emax), M - 1, 1 << (bits - 1),
                   rng.bits(bits) | (1 << emax)]
    for _ in range(per):
        vs.append(gen_value(rng, 8, bits // 8) if bits % 8 == 0 else rng.bits(bits))
    return [v % M for v in vs if v >= 0]


def float_values(rng, fmt, bits, per, w):
    """bit patterns aimed at every branch of cast_uint_from_float and of the signed wrapper"""
    fb, p, emax = FMT[fmt]
    fm = (1 << (p - 1)) - 1
    Emax = 2 * emax - 1
    out = []
    # zeros, subnormals, infinities, NaNs
    for s in (0, 1):
        out += [raw(fmt, s, 0, 0), raw(fmt, s, 0, 1), raw(fmt, s, 0, fm), raw(fmt, s, 0, rng.bits(p - 1) | 1),
                raw(fmt, s, 0, 1 << (p - 2)), raw(fmt, s, 0, 1 << rng.below(p - 1)),
                raw(fmt, s, Emax, 0),
                raw(fmt, s, Emax, 1 << (p - 2)), raw(fmt, s, Emax, (1 << (p - 2)) | rng.bits(p - 2)),   # quiet NaN
                raw(fmt, s, Emax, 1), raw(fmt, s, Emax, rng.bits(p - 2) | 1), raw(fmt, s, Emax, fm)]     # signalling / all ones
    exps = set([-3, -2, -1, 0, 1, 2, 3, p - 3, p - 2, p - 1, p, p + 1, p + 2,
                bits - 3, bits - 2, bits - 1, bits, bits + 1, bits + 2, w - 1, w, w + 1, 2 * w - 1, 2 * w,
                emax - 1, emax - 2, -(emax - 2), -(emax - 3), 31, 32, 63, 64, 127, 128])
    for _ in range(per):
        exps.add(rng.below(bits + 4) - 2)
    exps = sorted(e for e in exps if -(emax - 2) <= e <= emax - 1)
    for e in exps:
        fracs = [0, fm, 1, fm - 1, 1 << (p - 2), rng.bits(p - 1), rng.bits(p - 1), (1 << (p - 2)) | 1]
        if 0 <= e <= p - 2:
            lowbits = p - 1 - e                 # number of fraction bits below the binary point
            ip = rng.bits(e) << lowbits         # integer-valued
            fracs += [ip, ip | (1 << (lowbits - 1)), ip | ((1 << lowbits) - 1), ip | 1,
                      ip | (1 << (lowbits - 1)) | 1, (fm >> lowbits) << lowbits, ((fm >> lowbits) << lowbits) | (1 << (lowbits - 1))]
        for fr in fracs:
            for s in (0, 1):
                out.append(enc(fmt, s, e, fr))
    # signed boundary: +-2^(bits-1) and neighbours (one ulp either side)
    for e, fr in ((bits - 1, 0), (bits - 1, 1), (bits - 2, fm), (bits - 2, fm - 1), (bits, 0), (bits - 1, fm)):
        if -(emax - 2) <= e <= emax - 1:
            for s in (0, 1):
                out.append(enc(fmt, s, e, fr))
    for _ in range(per):
        out.append(rng.bits(fb))
    return out


def emit_int(out, op_prefix, fmt, w, n, v, prim):
    out.append("%s.to_%s %d %d %s" % (op_prefix, fmt, w, n, tokV(v, w, n)))
    if prim:
        out.append("%s.to_%s_matches_prim %d %d %s" % (op_prefix, fmt, w, n, tokV(v, w, n)))


def emit_float(out, op_prefix, fmt, w, n, f, prim):
    out.append("%s.from_%s %d %d %s" % (op_prefix, fmt, w, n, tokZ(f)))
    if prim:
        out.append("%s.from_%s_matches_prim %d %d %s" % (op_prefix, fmt, w, n, tokZ(f)))


SWEEP = True      # thorough tier: the binary is built with the cargo feature `sweep` (tools/ops/C14.ops: @sweep)


def sweep_cases(rng):
    """EVERY width 8, 16, ..., 8192 bits (u8 digits, N = 1..=1024): integers at the width's own boundaries (MAX, 2^(bits-1),
    ties and all-ones mantissas at the top of the width, the round-to-infinity threshold when the width reaches it) and floats
    at the saturation boundary of that width (2^bits, 2^(bits-1), one ulp either side, both signs) - the places where a
    width-dependent shortcut in the cast code would go wrong."""
    out = []
    std = {n for (w, n) in CONFIGS_ALL if w == 8}
    for n in range(1, 1025):
        if n in std:
            continue
        bits = 8 * n
        M = 1 << bits
        for fmt in ("f32", "f64"):
            fb, p, emax = FMT[fmt]
            fm = (1 << (p - 1)) - 1
            ivs = [M - 1, M >> 1, (M >> 1) - 1, (M >> 1) + 1, 1 << (bits - 2) if bits > 2 else 1]
            if bits > p + 2:
                sh = bits - p
                top = ((1 << p) - 1) << sh                 # all-ones mantissa at the top of the width
                ivs += [top, top | (1 << (sh - 1)), top | ((1 << (sh - 1)) - 1), (1 << (bits - 1)) | (1 << (sh - 1)),
                        (1 << (bits - 1)) | (1 << (sh - 1)) | 1, (1 << (bits - 1)) | (3 << (sh - 1)), rng.bits(bits) | (1 << (bits - 1))]
            if bits >= emax:
                T = (1 << emax) - (1 << (emax - p - 1))
                ivs += [T, T - 1, (1 << emax) - (1 << (emax - p))]
            for v in ivs:
                out.append("U.to_%s 8 %d %s" % (fmt, n, tokV(v % M, 8, n)))
                out.append("I.to_%s 8 %d %s" % (fmt, n, tokV((M - v) % M, 8, n)))
            for e, fr in ((bits, 0), (bits - 1, fm), (bits - 1, 0), (bits - 1, 1), (bits - 2, fm), (bits - 2, 0), (bits + 1, 0)):
                if -(emax - 2) <= e <= emax - 1:
                    for s_ in (0, 1):
                        f = enc(fmt, s_, e, fr)
                        out.append("U.from_%s 8 %d %s" % (fmt, n, tokZ(f)))
                        out.append("I.from_%s 8 %d %s" % (fmt, n, tokZ(f)))
            for f in (raw(fmt, 0, 2 * emax - 1, 0), raw(fmt, 1, 2 * emax - 1, 0), raw(fmt, 0, 2 * emax - 2, fm)):   # +-inf, MAX float
                out.append("U.from_%s 8 %d %s" % (fmt, n, tokZ(f)))
                out.append("I.from_%s 8 %d %s" % (fmt, n, tokZ(f)))
    return out


def gen(rng, tier):
    thorough = tier == "thorough"
    configs = CONFIGS_ALL if thorough else CONFIGS_QUICK
    out = []
    if thorough:
        out += sweep_cases(rng)
        if os.environ.get("VERIF_ONLY_SWEEP") == "1":       # development knob: the width sweep alone
            return out
    for (w, n) in configs:
        bits = w * n
        M = 1 << bits
        big = bits > 1100
        per = (12 if thorough else 4) if not big else 2
        for fmt in ("f32", "f64"):
            ivs = int_values(rng, fmt, bits, per)
            if big:
                ivs = ivs[:: (3 if thorough else 8)]
            for k, v in enumerate(ivs):
                prim = (bits <= 128) or v < (1 << 128) and k % 4 == 0
                emit_int(out, "U", fmt, w, n, v, prim)
                # signed: the same magnitude with either sign (magnitudes above 2^(bits-1) just wrap)
                emit_int(out, "I", fmt, w, n, v, prim and k % 2 == 0)
                emit_int(out, "I", fmt, w, n, (M - v) % M, prim)
            for v in (M >> 1, (M >> 1) + 1, M - 1, (M >> 1) - 1):      # MIN, MIN+1, -1, MAX
                emit_int(out, "I", fmt, w, n, v, True)
            fvs = float_values(rng, fmt, bits, per, w)
            if big:
                fvs = fvs[:: (2 if thorough else 6)]
            for k, f in enumerate(fvs):
                prim = bits <= 128 or k % 4 == 0
                emit_float(out, "U", fmt, w, n, f, prim)
                emit_float(out, "I", fmt, w, n, f, prim)
    if thorough:
        # every 16-bit integer, both formats, signed and unsigned
        for (w, n) in ((8, 2), (16, 1)):
            for v in range(65536):
                for fmt in ("f32", "f64"):
                    emit_int(out, "U", fmt, w, n, v, v % 16 == 0)
                    emit_int(out, "I", fmt, w, n, v, v % 16 == 0)
        # every f32 exponent and sign x a mantissa grid, at configurations around the f32 range
        fb, p, emax = FMT["f32"]
        fm = (1 << (p - 1)) - 1
        grid = [0, 1, 2, fm, fm - 1, 1 << (p - 2), (1 << (p - 2)) | 1, (1 << (p - 2)) - 1, 0x2AAAAA, 0x555555]
        for (w, n) in ((8, 1), (8, 3), (16, 2), (32, 1), (64, 1), (64, 2), (8, 17), (64, 3)):
            for s in (0, 1):
                for E in range(256):
                    for fr in grid + [rng.bits(p - 1)]:
                        f = raw("f32", s, E, fr)
                        emit_float(out, "U", "f32", w, n, f, E % 4 == 0)
                        emit_float(out, "I", "f32", w, n, f, E % 4 == 0)
        # every f64 exponent x a small grid
        fb, p, emax = FMT["f64"]
        fm = (1 << (p - 1)) - 1
        grid = [0, 1, fm, 1 << (p - 2), (1 << (p - 2)) | 1]
        for (w, n) in ((8, 1), (16, 3), (64, 1), (64, 2), (64, 17)):
            for s in (0, 1):
                for E in range(2048):
                    for fr in grid + [rng.bits(p - 1)]:
                        f = raw("f64", s, E, fr)
                        emit_float(out, "U", "f64", w, n, f, E % 16 == 0)
                        emit_float(out, "I", "f64", w, n, f, E % 16 == 0)
        # all f32 patterns whose value is below 2^9 in steps covering every integer and half-integer boundary at (8,1)
        for e in range(-2, 9):
            for k in range(0, 1 << 10):
                fr = (k << (p_f32() - 1 - 10))
                for s in (0, 1):
                    f = enc("f32", s, e, fr)
                    emit_float(out, "U", "f32", 8, 1, f, True)
                    emit_float(out, "I", "f32", 8, 1, f, True)
    return out


def p_f32():
    return FMT["f32"][1]


def exhaustive(tier):
    return tier == "thorough"


RULE = ("integers, per config x format: every bit length p-1..p+3, BITS-1, BITS and random lengths, with for each length > p "
        "exact ties on even/odd/all-ones/random mantissas, tie+-1, sticky bit in the lowest digit, all ones below the kept "
        "mantissa (carry into the exponent), the infinity threshold 2^emax - 2^(emax-p-1) +-1 and max finite +-1 where "
        "BITS >= emax, both signs and MIN/MAX for signed; floats: +-0, min/max/random subnormals, +-inf, quiet and "
        "signalling NaNs with payloads, exponents around -1/0/p-1/p/BITS-1/BITS/BITS+1/digit boundaries/emax-1 with mantissa "
        "zero/all-ones/random/integer/integer+0.5, the signed saturation boundary +-2^(BITS-1) +- 1ulp, random patterns; each "
        "also cross-checked in the harness against the primitive `as` when the value fits 128 bits. thorough adds every "
        "16-bit integer, every f32 and f64 exponent x sign x mantissa grid, and a dense f32 sweep below 2^9 at (8,1). "
        "Non-trivial = integer longer than the mantissa (rounding happens) or a float that is NaN/inf or has |f| >= 0.5.")


def nontrivial(case, result):
    toks = case.split(" ")
    op = toks[0]
    if "matches_prim" in op:
        return False
    fmt = "f32" if "f32" in op else "f64"
    fb, p, emax = FMT[fmt]
    if ".to_" in op:
        w = int(toks[1])
        v = from_digits(parse_L(toks[3]), w)
        bits = w * int(toks[2])
        if op.startswith("I.") and v >> (bits - 1):
            v = (1 << bits) - v
        return v.bit_length() > p
    f = int(toks[3][2:], 16)
    E = (f >> (p - 1)) & (2 * emax - 1)
    return E >= emax - 2


def prebuild(root):
    """translator: regenerate coq/Generated/FloatGen.v from /repo/src (the float casts are proved equal to the model in Proofs/FloatGenTie*.v)"""
    return run_translator(root, "rs2v_float.py", "C14")

"""Case generation shared by all properties: one PRNG, boundary-biased digit
and operand mixtures, the configuration table, token formatting.

Every random choice comes from one SplitMix64 state seeded from VERIF_SEED and
the property id, so a (seed, index) pair replays a case exactly."""

MASK64 = (1 << 64) - 1


class Rng:
    def __init__(self, seed):
        self.s = seed & MASK64

    def next(self):
        self.s = (self.s + 0x9E3779B97F4A7C15) & MASK64
        z = self.s
        z = ((z ^ (z >> 30)) * 0xBF58476D1CE4E5B9) & MASK64
        z = ((z ^ (z >> 27)) * 0x94D049BB133111EB) & MASK64
        return z ^ (z >> 31)

    def below(self, n):
        return self.next() % n if n > 0 else 0

    def bits(self, k):
        v = 0
        got = 0
        while got < k:
            v |= self.next() << got
            got += 64
        return v & ((1 << k) - 1)

    def choice(self, xs):
        return xs[self.below(len(xs))]

    def chance(self, num, den):
        return self.below(den) < num


# (w, n) configurations of the harness dispatch table (harness/src/lib.rs for_configs!)
CONFIGS_ALL = [(8, 1), (8, 2), (8, 3), (8, 4), (8, 5), (8, 8), (8, 17), (8, 33), (8, 300),
               (16, 1), (16, 2), (16, 3), (16, 6),
               (32, 1), (32, 2), (32, 3), (32, 10),
               (64, 1), (64, 2), (64, 3), (64, 5), (64, 17), (64, 128)]
CONFIGS_QUICK = [c for c in CONFIGS_ALL if c != (64, 128)]
CONFIGS_SMALL = [(8, 1), (8, 3), (8, 5), (16, 2), (16, 3), (32, 1), (32, 3), (64, 1), (64, 2), (64, 3)]   # for_configs_small!


def to_digits(v, w, n):
    if w % 8 == 0 and n > 16 and 0 <= v < (1 << (w * n)):
        b = v.to_bytes(w * n // 8, "little")
        k = w // 8
        return [int.from_bytes(b[i * k:(i + 1) * k], "little") for i in range(n)]
    m = (1 << w) - 1
    return [(v >> (w * i)) & m for i in range(n)]


def from_digits(ds, w):
    if w % 8 == 0 and len(ds) > 16 and all(0 <= d < (1 << w) for d in ds):
        k = w // 8
        return int.from_bytes(b"".join(d.to_bytes(k, "little") for d in ds), "little")
    v = 0
    for i, d in enumerate(ds):
        v |= d << (w * i)
    return v


def signed(v, bits):
    return v - (1 << bits) if v >> (bits - 1) else v


def tokL(ds):
    return "L:" + ",".join("%x" % d for d in ds)


def tokV(v, w, n):
    """value (taken mod 2^(w n)) as a digit-list token"""
    return tokL(to_digits(v & ((1 << (w * n)) - 1), w, n))


def tokZ(z):
    return "Z:-%x" % (-z) if z < 0 else "Z:%x" % z


def tokB(b):
    return "B:1" if b else "B:0"


def special_digits(w):
    top = 1 << (w - 1)
    mx = (1 << w) - 1
    return [0, 1, 2, mx, mx - 1, top, top - 1, top + 1]


def gen_digit(rng, w):
    r = rng.below(10)
    if r < 4:
        return rng.bits(w)
    if r < 8:
        return rng.choice(special_digits(w))
    if r == 8:
        return rng.bits(rng.below(w) + 1)
    return ((1 << w) - 1) ^ rng.bits(rng.below(w) + 1)


def gen_value(rng, w, n):
    """boundary-biased BITS-bit pattern (as a non-negative int)"""
    bits = w * n
    M = 1 << bits
    r = rng.below(16)
    if r < 3:
        return rng.bits(bits)
    if r < 5:
        return from_digits([gen_digit(rng, w) for _ in range(n)], w)
    if r < 7:
        # run of k equal extreme digits followed by a partial digit, rest zero / ones
        k = rng.below(n + 1)
        ext = rng.choice([0, (1 << w) - 1])
        rest = rng.choice([0, (1 << w) - 1])
        ds = [ext] * k
        if k < n:
            ds.append(gen_digit(rng, w))
        while len(ds) < n:
            ds.append(rest)
        return from_digits(ds[:n], w)
    if r < 9:
        return rng.choice([0, 1, 2, M - 1, M - 2, M >> 1, (M >> 1) - 1, (M >> 1) + 1, 3, 10, M - 10]) % M
    if r < 11:
        # small magnitude, either sign
        k = rng.below(min(bits, 70)) + 1
        v = rng.bits(k)
        return v if rng.chance(1, 2) else (M - v) % M
    if r < 13:
        # single bit / all ones below a bit / all ones above
        k = rng.below(bits)
        return rng.choice([1 << k, (1 << k) - 1, (M - (1 << k)) % M, ((1 << k) + 1) % M])
    if r < 15:
        # value near a digit boundary
        k = rng.below(n) * w
        d = rng.below(5) - 2
        return ((1 << k) + d) % M
    return rng.bits(bits) & rng.bits(bits)


def gen_pair(rng, w, n):
    """two operands, often related so that carries / borrows / ties occur"""
    bits = w * n
    M = 1 << bits
    a = gen_value(rng, w, n)
    r = rng.below(12)
    if r < 5:
        b = gen_value(rng, w, n)
    elif r == 5:
        b = (a + rng.below(5) - 2) % M
    elif r == 6:
        b = (M - a + rng.below(5) - 2) % M          # a + b near 2^BITS
    elif r == 7:
        b = ((M >> 1) - a + rng.below(5) - 2) % M   # a + b near 2^(BITS-1)
    elif r == 8:
        b = (M - 1) ^ a                              # complement
    elif r == 9:
        b = a
    elif r == 10:
        b = (a + (M >> 1) + rng.below(3) - 1) % M   # a - b near the signed boundary
    else:
        b = (a ^ (1 << rng.below(bits))) % M
    if rng.chance(1, 2):
        a, b = b, a
    return a, b


def boundary_values(w, n):
    bits = w * n
    M = 1 << bits
    vs = {0, 1, 2, 3, M - 1, M - 2, M - 3, M >> 1, (M >> 1) - 1, (M >> 1) + 1, (M >> 1) - 2, (M >> 2), M - (M >> 2)}
    for k in range(1, n):
        b = 1 << (w * k)
        vs |= {b % M, (b - 1) % M, (b + 1) % M, (M - b) % M}
    return sorted(v % M for v in vs)


def fmt_line(op, w, n, vals, sig):
    toks = []
    for v, s in zip(vals, sig):
        if s == "L":
            toks.append(tokV(v, w, n))
        elif s == "R":
            toks.append(tokL(v))
        elif s == "Z":
            toks.append(tokZ(v))
        else:
            toks.append(tokB(v))
    return "%s %d %d %s" % (op, w, n, " ".join(toks))


def std_gen(rng, tier, ops, configs, per, gen_z=None, gen_lists=None, grid=None, big_divisor=20):
    """signature-driven generation: for every op x config, `grid` tuples from the boundary grid and
    `per` boundary-biased tuples.  gen_z(rng, op, w, n, k) supplies the k-th integer argument;
    gen_lists(rng, op, w, n, count) may supply related digit-list operands."""
    out = []
    for op, sig in ops.items():
        nl = sum(1 for c in sig if c == "L")
        for (w, n) in configs:
            k = per if w * n <= 1100 else max(2, per // big_divisor)
            g = (grid if grid is not None else max(4, per // 4)) if w * n <= 1100 else 2
            bv = boundary_values(w, n)
            for it in range(g + k):
                if it < g:
                    ls = [rng.choice(bv) for _ in range(nl)]
                elif gen_lists is not None:
                    ls = gen_lists(rng, op, w, n, nl)
                elif nl >= 2:
                    a, b = gen_pair(rng, w, n)
                    ls = [a, b] + [gen_value(rng, w, n) for _ in range(nl - 2)]
                else:
                    ls = [gen_value(rng, w, n) for _ in range(nl)]
                vals = []
                li = zi = 0
                for c in sig:
                    if c == "L":
                        vals.append(ls[li])
                        li += 1
                    elif c == "Z":
                        vals.append(gen_z(rng, op, w, n, zi))
                        zi += 1
                    elif c == "B":
                        vals.append(rng.chance(1, 2))
                    else:
                        raise ValueError(c)
                out.append(fmt_line(op, w, n, vals, sig))
    return out


def exhaustive8(ops, gen_zs=None):
    """all operand tuples at (8,1) for every op (thorough tier)"""
    out = []
    for op, sig in ops.items():
        doms = []
        for c in sig:
            if c == "L":
                doms.append(range(256))
            elif c == "B":
                doms.append((False, True))
            elif c == "Z":
                doms.append(gen_zs(op) if gen_zs else range(0, 20))
        if len([c for c in sig if c == "L"]) > 2:
            continue

        def rec(i, cur):
            if i == len(doms):
                out.append(fmt_line(op, 8, 1, cur, sig))
                return
            for v in doms[i]:
                rec(i + 1, cur + [v])
        rec(0, [])
    return out


def parse_L(tok):
    body = tok[2:]
    return [int(x, 16) for x in body.split(",")] if body else []


def run_translator(root, name, group=None):
    """runs tools/<name> (a source -> Gallina translator); returns None on success, else its error text.
    group: the property being checked - a function the translator cannot handle counts as a failure only for the
    property whose tie is about that function (the translator emits a stub for it, so that tie breaks)"""
    import subprocess, sys, os
    p = subprocess.run([sys.executable, os.path.join(root, "tools", name)] + (["--for", group] if group else []),
                       stdout=subprocess.PIPE, stderr=subprocess.STDOUT)
    return None if p.returncode == 0 else p.stdout.decode("utf-8", "replace")[-500:]

"""C18 — num_traits / num_integer implementations (Integer, Roots, Signed, PrimInt, forwarders), called through the traits."""
from .common import *
from .ops_c18 import OPS

PROP, BIN, RUNMOD, RUNFN = "C18", "c18", "RunC18", "run_C18"
MODES = [True, False]

U32MAX = (1 << 32) - 1

GCD_OPS = ("gcd", "lcm")
FLOOR_OPS = ("div_floor", "mod_floor", "div_rem", "is_multiple_of", "divides", "div_euclid", "rem_euclid",
             "checked_div_euclid", "checked_rem_euclid", "checked_div", "checked_rem")
ROOT1_OPS = ("sqrt", "cbrt")
SHIFT_OPS = ("signed_shl", "signed_shr", "unsigned_shl", "unsigned_shr", "checked_shl", "checked_shr", "wrapping_shl",
             "wrapping_shr", "rotate_left", "rotate_right")
POW_OPS = ("pow", "primint_pow")


def iroot(x, k):
    if x < 2:
        return x
    if k >= x.bit_length():
        return 1
    lo, hi = 1, 1 << (x.bit_length() // k + 1)
    while lo < hi:
        mid = (lo + hi + 1) // 2
        if mid ** k <= x:
            lo = mid
        else:
            hi = mid - 1
    return lo


def degrees(bits):
    return [1, 2, 3, 4, 5, 7, 16, 17, 40, 63, 64, 65, 127, 128, 129, 255, 256, 257, max(1, bits - 1), bits, bits + 1,
            1 << 31, U32MAX]


def gen_radicand(rng, w, n, k, signed_op):
    """non-negative radicand below the signed/unsigned limit; biased to the Newton path (>= 2^128) when the
    width allows, to perfect k-th powers and their neighbours, and to the shortcut boundary"""
    bits = w * n
    lim = (1 << (bits - 1)) if signed_op else (1 << bits)
    r = rng.below(16)
    if bits > 129 and r < 7 and 2 <= k < bits:
        # perfect power r0^k (+-1) above 2^128
        top = iroot(lim - 1, k)
        low = iroot(1 << 128, k)
        if top > low:
            r0 = rng.choice([top, top - 1, low + 1, low + 2, low + 1 + rng.below(top - low), low + 1 + rng.below(top - low)])
        else:
            r0 = top
        v = r0 ** k + rng.choice([0, 0, -1, 1])
        return min(max(v, 0), lim - 1)
    if bits > 129 and r < 10:
        # random value with a chosen bit length above 128
        bl = 129 + rng.below(bits - 129 + (0 if signed_op else 1))
        bl = min(bl, bits - 1 if signed_op else bits)
        v = (1 << (bl - 1)) | rng.bits(bl - 1)
        return min(v, lim - 1)
    if r < 12:
        # shortcut path: perfect powers below 2^128 and small values
        top = iroot(min(lim, 1 << 128) - 1, max(k, 1)) if k < 200 else 1
        r0 = rng.below(top + 1) if rng.chance(1, 2) else max(0, top - rng.below(3))
        v = (r0 ** min(k, 200) if r0 > 1 else r0) + rng.choice([0, -1, 1])
        return min(max(v, 0), min(lim, 1 << 128) - 1)
    if r == 12:
        return rng.choice([0, 1, 2, 3, 4, 7, 8, 9, 15, 16, 26, 27, 28, lim - 1, lim - 2, lim >> 1]) % lim
    if r == 13 and bits > 128:
        return rng.choice([(1 << 128) - 1, 1 << 128, (1 << 128) + 1, (1 << 129) - 1, 1 << 129, lim - 1, lim - 2, lim >> 1,
                           (lim >> 1) + 1, 1 << (128 + rng.below(bits - 128 - (1 if signed_op else 0)))]) % lim
    if r == 14:
        return rng.choice([1 << (w * rng.below(n)), (1 << (w * rng.below(n))) + 1, gen_digit(rng, w)]) % lim
    return gen_value(rng, w, n) % lim


def gen_root_case(rng, op, w, n):
    bits = w * n
    M = 1 << bits
    is_signed = op.startswith("I.")
    name = op.split(".")[1]
    if name == "sqrt":
        k = 2
    elif name == "cbrt":
        k = 3
    else:
        r = rng.below(12)
        if r < 8:
            k = rng.choice(degrees(bits))
        elif r == 8:
            k = 0
        elif r == 9:
            k = rng.below(bits + 3)
        elif r == 10:
            k = 4 + rng.below(30)
        else:
            k = rng.bits(rng.below(32) + 1)
    v = gen_radicand(rng, w, n, k if k >= 2 else 2, is_signed)
    if name not in ROOT1_OPS and bits >= 256 and rng.chance(1, 5):
        # longest Newton descents: a large degree k and a radicand whose bit length is just above a multiple of k, so
        # that the initial guess 2^(bits(x)/k + 1) is about twice the root and the linear phase takes ~0.69 k steps
        k = max(4, rng.choice([bits // m for m in range(4, 13)] + [64, 96, 100, 128, 16 + rng.below(max(1, bits // 4 - 16))])
                + rng.below(5) - 2)
        ubits = bits - 1 if is_signed else bits
        mmax = max(1, (ubits - 1) // k)
        m = rng.choice([mmax, mmax, max(1, mmax - 1), 1 + rng.below(mmax)])
        bl = min(ubits, m * k + 1 + rng.choice([0, 0, 0, 1, 2]))
        v = (1 << (bl - 1)) + (rng.bits(rng.below(bl - 1) + 1) if bl > 1 and rng.chance(1, 2) else rng.below(3))
        v = min(v, (1 << ubits) - 1)
    if is_signed:
        r = rng.below(8)
        if r < 3:
            v = (M - v) % M          # negative radicand (odd and even degrees)
        elif r == 3:
            v = rng.choice([M >> 1, (M >> 1) + 1, M - 1, M - 2, M - 8, M - 27])   # MIN, MIN+1, -1, -2, -8, -27
    return [v] if name in ROOT1_OPS else [v, k]


def gen_gcd_pair(rng, op, w, n):
    bits = w * n
    M = 1 << bits
    is_signed = op.startswith("I.")
    lim = (M >> 1) if is_signed else M
    r = rng.below(16)
    if r < 7:
        # (2^i * x * g, 2^j * y * g)
        i = rng.below(bits)
        j = rng.below(bits) if rng.chance(2, 3) else i
        gb = rng.below(max(1, bits // 3)) + 1
        g = rng.bits(gb) | 1
        x = rng.bits(rng.below(max(1, bits - i - gb)) + 1) | 1
        y = rng.bits(rng.below(max(1, bits - j - gb)) + 1) | 1
        a = ((x * g) << i) % M
        b = ((y * g) << j) % M
    elif r == 7:
        a = rng.choice([0, 0, 1, lim - 1, gen_value(rng, w, n)])
        b = rng.choice([0, 1, 2, lim - 1, gen_value(rng, w, n)])
    elif r == 8:
        a = gen_value(rng, w, n)
        b = a                                               # equal operands
    elif r == 9:
        # lcm near overflow: coprime-ish factors whose product is near the limit
        ha = rng.below(bits - 1) + 1
        a = rng.bits(ha) | 1 | (1 << (ha - 1))
        q = max(1, (lim - 1) // a)
        b = max(1, q - rng.below(3) + 1)
    elif r == 10:
        # Fibonacci-like neighbours (slowest subtractive behaviour) and a, a+1
        a = gen_value(rng, w, n)
        b = (a + rng.choice([1, 2, -1])) % M
    elif r == 11:
        # one operand a power of two / single digit
        a = 1 << rng.below(bits)
        b = gen_value(rng, w, n)
    elif r == 12:
        a = gen_digit(rng, w) << (w * rng.below(n))
        b = gen_digit(rng, w) << (w * rng.below(n))
    elif r == 13:
        # multiples: b | a
        b = rng.bits(rng.below(max(1, bits // 2)) + 1) or 1
        a = (b * (rng.bits(rng.below(max(1, bits // 2 - 1)) + 1))) % M
    else:
        a, b = gen_pair(rng, w, n)
    a %= M
    b %= M
    if is_signed:
        r2 = rng.below(10)
        if r2 < 3:
            a = (M - a) % M
        if 2 <= r2 < 5:
            b = (M - b) % M
        if r2 == 9:
            a = M >> 1                                      # MIN: |MIN| is not representable
            if rng.chance(1, 2):
                b = rng.choice([0, M >> 1, M - 1, 1, b])
    if rng.chance(1, 2):
        a, b = b, a
    return [a, b]


def gen_floor_pair(rng, op, w, n):
    bits = w * n
    M = 1 << bits
    is_signed = op.startswith("I.")
    lim = (M >> 1) if is_signed else M
    r = rng.below(14)
    if r < 5:
        # a = q*d + r0 with exact (r0 = 0) and inexact quotients, |values| within range
        k = rng.below(bits - 1) + 1
        d = rng.bits(k) or 1
        q = rng.bits(max(1, bits - 1 - k - rng.below(3))) if rng.chance(3, 4) else rng.below(4)
        r0 = rng.choice([0, 0, 1 % d, d - 1, rng.below(d)])
        a = (q * d + r0) % lim
        b = d % lim or 1
    elif r == 5:
        a = M >> 1                                          # MIN / -1, MIN / 1, MIN / MIN, MIN / 2
        b = rng.choice([M - 1, M - 1, 1, M >> 1, 2, M - 2])
    elif r == 6:
        b = 0                                               # zero divisor
        a = rng.choice([0, 1, M - 1, M >> 1, gen_value(rng, w, n)])
    elif r == 7:
        a = rng.choice([0, 1, M - 1, 2, M - 2, lim - 1, M >> 1])
        b = rng.choice([1, M - 1, 2, M - 2, 3, M - 3, lim - 1, M >> 1])
    elif r == 8:
        a = gen_value(rng, w, n)
        b = (a + rng.below(3) - 1) % M
    elif r == 9:
        a = gen_value(rng, w, n)
        b = gen_digit(rng, w) or 1
    elif r == 10:
        a = rng.below(50)
        b = rng.below(9) + 1
    else:
        a, b = gen_pair(rng, w, n)
    a %= M
    b %= M
    if is_signed and r not in (5,):
        if rng.chance(1, 2):
            a = (M - a) % M
        if rng.chance(1, 2):
            b = (M - b) % M
    return [a, b]


def gen_amount(rng, w, n):
    bits = w * n
    r = rng.below(10)
    if r < 4:
        return rng.below(bits)
    if r < 6:
        return max(0, rng.below(n + 1) * w + rng.below(3) - 1)
    if r == 6:
        return rng.choice([bits - 1, bits, bits + 1, 2 * bits - 1, 2 * bits, 0, 1])
    if r == 7:
        return rng.choice([1 << 31, U32MAX, U32MAX - bits + 1, 1 << 16, 255, 256, 64, 63, 65, 128])
    if r == 8:
        return rng.below(3 * bits + 2)
    return rng.bits(32)


def gen_pow_case(rng, op, w, n):
    bits = w * n
    M = 1 << bits
    is_signed = op.startswith("I.")
    r = rng.below(10)
    if r < 4:
        e = max(1, rng.choice([2, 3, 4, 5, 7, 8, 9, 16, 17, bits - 1, bits, bits + 1, rng.below(bits) + 1, rng.below(40) + 1]))
        lim = (M >> 1) if is_signed else M
        base = iroot(lim - 1, e) + rng.below(3) - 1
        if is_signed and rng.chance(1, 2):
            base = (M - (iroot(lim, e) + rng.below(3) - 1)) % M
        return [base % M, e]
    if r < 6:
        return [rng.choice([0, 1, M - 1, 2, M - 2, 3, 10]) % M,
                rng.choice([0, 1, 2, 3, bits - 2, bits - 1, bits, bits + 1, 1 << 31, U32MAX, U32MAX - 1, rng.bits(32)])]
    if r < 8:
        return [gen_value(rng, w, n), rng.below(8)]
    return [gen_value(rng, w, n), rng.bits(rng.below(32) + 1)]


DIGS = "0123456789abcdefghijklmnopqrstuvwxyz"


def gen_str_case(rng, op, w, n):
    bits = w * n
    radix = rng.choice([2, 3, 4, 8, 10, 16, 32, 36, 2 + rng.below(35)])
    ln = rng.below(bits // 3 + 4)
    s = "".join(DIGS[rng.below(radix)] for _ in range(ln))
    r = rng.below(8)
    if r == 0:
        s = "-" + s
    elif r == 1:
        s = "+" + s
    elif r == 2 and s:
        i = rng.below(len(s))
        s = s[:i] + rng.choice(["z", "Z", " ", "_", "-", "+", "g", "9", "/"]) + s[i + 1:]
    elif r == 3:
        s = s.upper()
    elif r == 4:
        s = "0" * rng.below(bits) + s
    return [[ord(c) for c in s], radix]


def gen_case(rng, op, w, n, sig):
    name = op.split(".")[1]
    M = 1 << (w * n)
    if name in GCD_OPS:
        return gen_gcd_pair(rng, op, w, n)
    if name in FLOOR_OPS:
        return gen_floor_pair(rng, op, w, n)
    if name in ROOT1_OPS or name == "nth_root":
        return gen_root_case(rng, op, w, n)
    if name in SHIFT_OPS:
        return [gen_value(rng, w, n), gen_amount(rng, w, n)]
    if name in POW_OPS:
        return gen_pow_case(rng, op, w, n)
    if name == "num_from_str_radix_eq":
        return gen_str_case(rng, op, w, n)
    if name == "mul_add":
        r = rng.below(6)
        if r < 2:
            # a*b + c near the overflow boundary
            lim = (M >> 1) if op.startswith("I.") else M
            a = rng.bits(rng.below(w * n - 1) + 1) or 1
            b = (lim - 1) // a
            c = (lim - 1 - a * b + rng.below(3) - 1) % M
            if op.startswith("I.") and rng.chance(1, 2):
                a = (M - a) % M
                c = (M - c) % M
            return [a % M, b % M, c]
        a, b = gen_pair(rng, w, n)
        if r == 2:
            b = rng.choice([0, 1, M - 1, 2])
        return [a, b, gen_value(rng, w, n)]
    if sig == "":
        return []
    if sig == "L":
        return [gen_value(rng, w, n)]
    if sig == "LL":
        a, b = gen_pair(rng, w, n)
        if name in ("checked_mul", "saturating_mul", "wrapping_mul") and rng.chance(1, 2):
            lim = (M >> 1) if op.startswith("I.") else M
            a = rng.bits(rng.below(w * n - 1) + 1) or 1
            b = ((lim - 1) // a + rng.below(3) - 1) % M
            if op.startswith("I.") and rng.chance(1, 2):
                a = (M - a) % M
        return [a, b]
    raise ValueError(op)


def root_configs(configs):
    return [c for c in configs if c[0] * c[1] > 128]


def gen(rng, tier):
    thorough = tier == "thorough"
    configs = CONFIGS_ALL if thorough else CONFIGS_QUICK
    out = []
    for op, sig in OPS.items():
        name = op.split(".")[1]
        heavy = name in GCD_OPS or name in ROOT1_OPS or name == "nth_root"
        core = heavy or name in FLOOR_OPS or name in ("abs", "abs_sub", "mul_add")
        per = (240 if thorough else 28) if core else (60 if thorough else 8)
        if heavy and thorough:
            per = 110
        if sig == "":
            per = 1
        for (w, n) in configs:
            bits = w * n
            k = per
            if bits > 1100:
                k = 1 if sig == "" else (3 if heavy else max(2, per // 30))
            elif heavy and bits > 128:
                k = per * 2            # the Newton path / long gcd loops live here
            bv = boundary_values(w, n)
            for it in range(k):
                if sig and it < max(2, k // 6) and set(sig) <= set("L") and not heavy:
                    vals = [rng.choice(bv) for _ in sig]
                else:
                    vals = gen_case(rng, op, w, n, sig)
                if bits > 1100 and (name in ROOT1_OPS or name == "nth_root"):
                    # 8192-bit roots: keep the radicand just above 2^128 .. 2^400 so that the model's Newton
                    # iterations stay cheap (few significant digits)
                    v = (1 << (129 + rng.below(270))) | rng.bits(128)
                    kk = rng.choice([2, 3, 4, 5, 7, 17, 40, 64, 127, 128, 129, 257, bits, U32MAX])
                    if op.startswith("I.") and rng.chance(1, 3):
                        v = (1 << bits) - v
                    vals = [v] if name in ROOT1_OPS else [v, kk]
                if bits > 1100 and name in GCD_OPS:
                    # 8192-bit gcd: operands of at most ~300 significant bits times powers of two (the model's loop
                    # costs one 128-digit subtraction and shift per removed bit)
                    g = rng.bits(100) | 1
                    x = (rng.bits(1 + rng.below(200)) | 1) * g
                    y = (rng.bits(1 + rng.below(200)) | 1) * g
                    vals = [(x << rng.below(bits - 300)) % (1 << bits), (y << rng.below(bits - 300)) % (1 << bits)]
                    if op.startswith("I.") and rng.chance(1, 2):
                        vals[0] = ((1 << bits) - vals[0]) % (1 << bits)
                out.append(fmt_line(op, w, n, vals, sig))
    # degree sweep: every degree of the list on MAX, on a perfect power and on a random value, at every width
    # that reaches the Newton path
    for (w, n) in root_configs(CONFIGS_QUICK):
        bits = w * n
        M = 1 << bits
        ks = degrees(bits) + [0, 6, 9, 10, 31, 32, 33]
        if bits > 1100 and not thorough:
            # the model's Newton iteration is costly at 2400 bits: a subset of the degrees (large degrees cost ~0.7 k Newton steps of a k-th power each)
            ks = [0, 2, 3, 7, 40, bits - 1, bits, U32MAX]
        for k in ks:
            for op in ("U.nth_root", "I.nth_root"):
                lim = M if op[0] == "U" else M >> 1
                r0 = iroot(lim - 1, k) if 0 < k < bits else 1
                vs = [lim - 1, max(0, min(lim - 1, r0 ** min(max(k, 1), bits))), gen_radicand(rng, w, n, max(k, 2), op[0] == "I")]
                if thorough:
                    vs += [max(0, min(lim - 1, r0 ** min(max(k, 1), bits) - 1)), gen_radicand(rng, w, n, max(k, 2), op[0] == "I"),
                           (1 << 128) + rng.bits(64)]
                for v in vs:
                    out.append(fmt_line(op, w, n, [v % M, k], "LZ"))
                    if op[0] == "I" and rng.chance(1, 2):
                        out.append(fmt_line(op, w, n, [(M - v) % M, k], "LZ"))
    # floor pairs: all sign combinations of small exact / inexact quotients at every quick config
    for (w, n) in CONFIGS_QUICK:
        M = 1 << (w * n)
        for (x, y) in [(7, 2), (8, 2), (1, 2), (0, 3), (7, 7), (6, 7), (9, 3)]:
            for sx in (1, -1):
                for sy in (1, -1):
                    for op in ("I.div_floor", "I.mod_floor", "I.div_rem", "I.is_multiple_of"):
                        if x < (M >> 1) and y < (M >> 1):
                            out.append(fmt_line(op, w, n, [(sx * x) % M, (sy * y) % M], "LL"))
    if thorough:
        # exhaustive 8-bit spaces
        for op, sig in OPS.items():
            name = op.split(".")[1]
            if sig == "L":
                for a in range(256):
                    out.append(fmt_line(op, 8, 1, [a], sig))
            elif sig == "LL" and name in ("gcd", "lcm", "div_floor", "mod_floor", "div_rem", "is_multiple_of", "abs_sub"):
                for a in range(256):
                    for b in range(256):
                        out.append(fmt_line(op, 8, 1, [a, b], sig))
            elif name == "nth_root":
                for a in range(256):
                    for k in list(range(0, 12)) + [255, 256, U32MAX]:
                        out.append(fmt_line(op, 8, 1, [a, k], sig))
        # all 16-bit radicands for sqrt / cbrt (shortcut path, perfect-power boundaries)
        for op in ("U.sqrt", "U.cbrt", "I.sqrt", "I.cbrt"):
            for a in range(0, 65536, 3):
                out.append(fmt_line(op, 8, 2, [a], "L"))
    return out


def exhaustive(tier):
    return tier == "thorough"


RULE = ("gcd/lcm: (2^i*x*g, 2^j*y*g) with odd x,y,g, zero and equal operands, neighbours a,a+-1, powers of two, exact "
        "multiples, lcm with a*b at the overflow limit, MIN and negative operands for signed; floor/div/euclid ops: a=q*d+r "
        "with exact and inexact quotients in all four sign combinations, MIN/-1, MIN/1, zero divisor, small pairs (+-7,+-2)...; "
        "roots: radicands >= 2^128 at every width above 128 bits ((8,17),(32,10),(64,3),(64,5),(64,17) and (64,128) in "
        "thorough) built as r^k, r^k-1, r^k+1, random bit lengths, 2^128-1/2^128/2^128+1, MAX, and below 2^128 for the "
        "primitive shortcut; degrees 0,1,2,3,4,5,7,16,17,40,63..65,127..129,255..257,BITS-1,BITS,BITS+1,2^31,u32::MAX and "
        "random; longest Newton descents (widths >= 256 bits: degree k around BITS/4..BITS/12, 64, 96, 100, 128 and a radicand of "
        "bit length m*k+1, so that the first guess is about twice the root and the descent takes ~0.69 k steps); "
        "negative radicands with odd and even degrees, MIN; shifts with amounts around digit boundaries, BITS, "
        "u32::MAX; pow at the overflow boundary; mul_add at the overflow boundary; from_str_radix strings valid/invalid in "
        "radix 2..36; thorough adds all 8-bit operand pairs for gcd/lcm/div_floor/mod_floor/div_rem/is_multiple_of/abs_sub, all 8-bit radicands x degrees 0..11,255,256,u32::MAX, every third 16-bit radicand for sqrt/cbrt. "
        "Non-trivial = root of a value >= 2^128 with degree >= 2 (Newton path), gcd/lcm of two non-zero operands, a "
        "division-like op with non-zero remainder or mixed signs, or None/Panic/overflow flag.")


def nontrivial(case, result):
    if "B:1" in result or "None" in result or "Panic" in result:
        return True
    toks = case.split(" ")
    name = toks[0].split(".")[1]
    w = int(toks[1])
    if name in ROOT1_OPS or name == "nth_root":
        a = from_digits(parse_L(toks[3]), w)
        return a >= (1 << 128)
    if name in GCD_OPS:
        return any(parse_L(toks[3])) and any(parse_L(toks[4]))
    if name in FLOOR_OPS:
        n = int(toks[2])
        a = from_digits(parse_L(toks[3]), w)
        b = from_digits(parse_L(toks[4]), w)
        if toks[0].startswith("I."):
            a, b = signed(a, w * n), signed(b, w * n)
        return b != 0 and (a % b != 0 or (a < 0) != (b < 0))
    return len(toks) > 3


def prebuild(root):
    """translators: regenerate coq/Generated/Glue.v (proved equal to the model in Proofs/GlueTieC18.v) and
    coq/Generated/NtGen.v (the Integer / Roots / Signed code; Proofs/NtGenTie*.v) from /repo/src"""
    return run_translator(root, "rs2v_glue.py", "C18") or run_translator(root, "rs2v_nt.py", "C18")

"""C20 — random generation: Standard, Fill / try_fill_slice, UniformInt (new, new_inclusive, sample,
sample_single, sample_single_inclusive) and Rng::gen_range, driven by scripted RNG byte streams.

Case line:  <op> <w> <n> <args>   with the RNG script as a raw byte list (L:..), identical for the
implementation's scripted RngCore and for the model's stream argument."""
from .common import *

PROP, BIN, RUNMOD, RUNFN = "C20", "c20", "RunC20", "run_C20"
MODES = [True, False]
EXTRA_TRUSTED = [
    "harness/src/bin/c20.rs Scripted RngCore: serves try_fill_bytes requests from the case's byte list left to right "
    "(next_u32/next_u64/fill_bytes derived little-endian from the same bytes, as rand_core 0.6 impls do); bnum reaches the "
    "generator only through try_fill_bytes (rand 0.8.8 src/rng.rs Fill impls for [u8]/[u16]/[u32]/[u64], read from source)",
    "little-endian target: BUint::to_le / uN::to_le are the identity, a digit is the little-endian decoding of its bytes",
]
ASSUMPTIONS = [
    "the facts about other models the C20 proofs use (coq/Proofs/RandomDeps.v: widening_mul, wrapping add/sub, signed sub, rem, shl, "
    "leading_zeros, comparison) were developed as explicit premises and are discharged by the proved theorems of C01/C02/C03/C05/"
    "C06/C07 in coq/Proofs/DischargeRandom.v; every theorem of coq/Properties/C20.v is premise-free",
]

SMALL = [(8, 1), (8, 2), (16, 1)]          # BITS <= 16: zone by `% range` in sample_single_inclusive
RANGE_OPS = ["uniform_new_sample", "uniform_new_inclusive_sample", "sample_single", "sample_single_inclusive",
             "gen_range", "gen_range_inclusive"]
EXCLUSIVE = {"uniform_new_sample", "sample_single", "gen_range"}


def nbytes(w, n):
    return (w // 8) * n


def word_bytes(v, w, n):
    return [(v >> (8 * i)) & 0xFF for i in range(nbytes(w, n))]


def tokS(words, w, n, tail=()):
    bs = []
    for v in words:
        bs += word_bytes(v, w, n)
    bs += list(tail)
    return tokL(bs)


# ---------- reference arithmetic used only to aim the inputs (never to judge results) ----------

def range_size(low, high, M):
    return (high - low + 1) % M


def zone_sample(r, M):
    """zone of UniformInt::sample: MAX - (MAX - range + 1) % range"""
    return M - 1 - ((M - r) % r)


def zone_single(r, M, bits):
    if bits <= 16:
        return zone_sample(r, M)
    lz = bits - r.bit_length()
    return ((r << lz) % M - 1) % M


def classify(v, r, M, zone):
    p = v * r
    return (p % M) <= zone, p // M


def boundary_words(rng, r, M, zone):
    """words whose low product half lands on / next to the acceptance boundary, and 0 / MAX"""
    ws = {0, 1, M - 1, M - 2, M >> 1, (M >> 1) - 1}
    T = zone + 1
    q = T // r
    hs = {0, 1, r - 1, r // 2, rng.below(r), rng.below(r)}
    for h in hs:
        if h < 0 or h >= r:
            continue
        v0 = -((-h * M) // r)
        for d in (-1, 0, 1):
            ws.add((v0 + d) % M)
            ws.add((v0 + q + d) % M)
            ws.add((v0 + (M // r) + d) % M)
    if r % 2 == 1:
        inv = pow(r, -1, M)
        for lo in (zone, (zone + 1) % M, (zone - 1) % M, 0, M - 1, 1):
            ws.add((lo * inv) % M)
    return sorted(ws)


def gen_range_pair(rng, w, n, sg):
    """(low, high) as bit patterns, low <= high in the type's order; returns also the size"""
    bits = w * n
    M = 1 << bits
    k = rng.below(bits + 1)
    r = rng.choice([1, 2, 3, 1 << k, (1 << k) + 1, (1 << k) - 1, M - 1, M, M >> 1, (M >> 1) + 1, (M >> 1) - 1,
                    M // 3, M // 3 + 1, (2 * M) // 3, rng.bits(bits) + 1, rng.bits(rng.below(bits) + 1) + 1,
                    M - rng.below(5), 10, 100, 255, 256, 257, 6, 7])
    r = max(1, min(M, r))
    tmin, tmax = (-(M >> 1), (M >> 1) - 1) if sg else (0, M - 1)
    room = (tmax - tmin + 1) - r            # low in [tmin, tmin + room]
    c = rng.below(7)
    if c == 0:
        off = 0
    elif c == 1:
        off = room
    elif c == 2:
        off = room // 2                      # signed: spans zero
    elif c == 3:
        off = min(room, rng.below(4))
    elif c == 4:
        off = max(0, room - rng.below(4))
    elif c == 5 and sg:
        off = max(0, min(room, (M >> 1) - rng.below(r)))   # low <= 0 <= high
    else:
        off = rng.below(room + 1)
    low = tmin + off
    high = low + r - 1
    return low % M, high % M, r, low, high


def gen_script(rng, w, n, r, M, zone, style=None):
    """list of words + optional partial tail.  Never a constant stream."""
    bw = boundary_words(rng, r, M, zone)
    acc = [v for v in bw if classify(v, r, M, zone)[0]]
    rej = [v for v in bw if not classify(v, r, M, zone)[0]]
    if not rej:
        for _ in range(20):
            v = rng.bits(M.bit_length() - 1)
            if not classify(v, r, M, zone)[0]:
                rej.append(v)
                break
    style = rng.below(10) if style is None else style
    words = []
    tail = []
    if style < 3:
        # k rejected boundary words, then an accepted boundary word, then one more word
        k = rng.below(4) if rej else 0
        words = [rng.choice(rej) for _ in range(k)] + [rng.choice(acc)] + [rng.bits(M.bit_length() - 1)]
    elif style == 3:
        # counter
        s0 = rng.bits(M.bit_length() - 1)
        step = rng.choice([1, 3, M // 7 + 1, 0x0101010101010101 % M or 1])
        words = [(s0 + i * step) % M for i in range(1 + rng.below(5))]
    elif style == 4:
        # only rejected words: the script runs dry
        words = [rng.choice(rej) for _ in range(1 + rng.below(3))] if rej else [rng.choice(bw)]
    elif style == 5:
        # rejected words then a partial word
        words = [rng.choice(rej) for _ in range(rng.below(3))] if rej else []
        tail = [rng.below(256) for _ in range(rng.below(max(1, nbytes(w, n))))]
    elif style == 6:
        words = [rng.choice(bw) for _ in range(1 + rng.below(4))]
    elif style == 7:
        words = [rng.bits(M.bit_length() - 1) for _ in range(1 + rng.below(4))]
    elif style == 8:
        words = [gen_value(rng, w, n) for _ in range(1 + rng.below(4))]
    else:
        words = []
        tail = [rng.below(256) for _ in range(rng.below(max(1, nbytes(w, n))))]
    return words, tail


def range_case(rng, op, sg, w, n):
    bits = w * n
    M = 1 << bits
    lowp, highp, r, low, high = gen_range_pair(rng, w, n, sg)
    tmax = (M >> 1) - 1 if sg else M - 1
    if op in EXCLUSIVE:
        if high < tmax and rng.chance(9, 10):
            highp = (highp + 1) % M          # [low, high+1) : same size
        else:
            r -= 1                           # [low, high) ; size 1 becomes the empty range: panic
    if rng.chance(1, 40):
        lowp, highp = highp, lowp            # low > high (or equal): panics
    rr = r % M
    if rr == 0:
        rr, zone = 1, M - 1                  # full range / empty: any word
    elif "uniform" in op:
        zone = zone_sample(rr, M)
    else:
        zone = zone_single(rr, M, bits)
    words, tail = gen_script(rng, w, n, rr, M, zone)
    return "%s.%s %d %d %s %s %s" % ("I" if sg else "U", op, w, n, tokV(lowp, w, n), tokV(highp, w, n),
                                      tokS(words, w, n, tail))


def sweep_lines(op, sg, w, n, lowp, highp, chunk):
    M = 1 << (w * n)
    return ["%s.%s %d %d %s %s Z:%x Z:%x" % ("I" if sg else "U", op, w, n, tokV(lowp, w, n), tokV(highp, w, n), st,
                                            min(chunk, M - st)) for st in range(0, M, chunk)]


def all_ranges(bits, sg):
    M = 1 << bits
    tmin, tmax = (-(M >> 1), (M >> 1) - 1) if sg else (0, M - 1)
    for lo in range(tmin, tmax + 1):
        for hi in range(lo, tmax + 1):
            yield lo % M, hi % M


def gen(rng, tier):
    thorough = tier == "thorough"
    configs = CONFIGS_ALL if thorough else CONFIGS_QUICK
    per = 120 if thorough else 24
    out = []
    for (w, n) in configs:
        bits = w * n
        M = 1 << bits
        big = bits > 1100
        k = max(3, per // 12) if big else per
        B = nbytes(w, n)
        # ---- Standard
        for sg in "UI":
            for it in range(k):
                c = rng.below(6)
                if c == 0:
                    bs = [rng.below(256) for _ in range(rng.below(B))]            # too short
                elif c == 1:
                    bs = [rng.below(256) for _ in range(B)]                          # exactly one value
                elif c == 2:
                    v = rng.choice(boundary_values(w, n))
                    bs = word_bytes(v, w, n) + [rng.below(256) for _ in range(rng.below(2 * B + 1))]
                elif c == 3:
                    bs = [(it * 17 + i) & 0xFF for i in range(B + rng.below(B + 1))]  # byte counter: order visible
                elif c == 4:
                    bs = [rng.choice([0, 0xFF, 0x80, 0x7F, 1]) for _ in range(B)] + [rng.below(256)]
                else:
                    bs = word_bytes(gen_value(rng, w, n), w, n) + word_bytes(gen_value(rng, w, n), w, n)
                out.append("%s.standard %d %d %s" % (sg, w, n, tokL(bs)))
            # ---- slice fill
            for op in ("try_fill_slice", "fill_trait"):
                for it in range(max(3, k // 2)):
                    ln = rng.choice([0, 1, 1, 2, 3, 4, 7]) if not big else rng.choice([0, 1, 2])
                    c = rng.below(5)
                    if c == 0 and ln > 0:
                        cnt = ln * B - 1 - rng.below(min(B, 3))                  # one byte (or a few) short
                    elif c == 1:
                        cnt = ln * B
                    else:
                        cnt = ln * B + rng.below(B + 2)
                    base = rng.below(256)
                    if rng.chance(1, 2):
                        bs = [(base + i * (1 + 2 * rng.below(2))) & 0xFF for i in range(max(0, cnt))]
                    else:
                        bs = [rng.below(256) for _ in range(max(0, cnt))]
                    out.append("%s.%s %d %d Z:%x %s" % (sg, op, w, n, ln, tokL(bs)))
        # ---- Add<Digit>
        for it in range(max(4, k // 3)):
            a = rng.choice([M - 1, M - 2, (1 << (w * rng.below(n) + w)) - 1 if n > 1 else M - 1, gen_value(rng, w, n),
                            gen_value(rng, w, n), 0])
            d = rng.choice([1, 1, 0, (1 << w) - 1, gen_digit(rng, w)])
            out.append("U.add_digit %d %d %s Z:%x" % (w, n, tokV(a, w, n), d))
        # ---- ranges
        for op in RANGE_OPS:
            for sg in (False, True):
                for it in range(k):
                    out.append(range_case(rng, op, sg, w, n))
        # ---- several draws from one sampler
        for sg in (False, True):
            for it in range(max(3, k // 3)):
                lowp, highp, r, low, high = gen_range_pair(rng, w, n, sg)
                rr = r % M
                cnt = 1 + rng.below(4)
                words = []
                for j in range(cnt):
                    if rr == 0:
                        ws, tl = [rng.bits(bits)], []
                    else:
                        ws, tl = gen_script(rng, w, n, rr, M, zone_sample(rr, M), style=rng.choice([0, 0, 0, 3, 6, 7]))
                    words += ws
                out.append("%s.uniform_inclusive_sample_k %d %d %s %s Z:%x %s" % (
                    "I" if sg else "U", w, n, tokV(lowp, w, n), tokV(highp, w, n), cnt, tokS(words, w, n)))
    # ---- exhaustive sub-runs
    if thorough:
        for sg in (False, True):
            for lowp, highp in all_ranges(8, sg):
                out += sweep_lines("sweep_ssi", sg, 8, 1, lowp, highp, 256)
        for sg in (False, True):
            for lowp, highp in all_ranges(8, sg):
                out += sweep_lines("sweep_uni", sg, 8, 1, lowp, highp, 256)
        sizes16 = [1, 2, 3, 5, 8, 9, 255, 256, 257, 21845, 21846, 32767, 32768, 32769, 40000, 43691, 65521, 65535, 65536]
        for (w, n) in ((16, 1), (8, 2)):
            M = 1 << 16
            for r in sizes16:
                for sg in (False, True):
                    tmin = -(M >> 1) if sg else 0
                    for low in ({tmin, tmin + (M - r) // 2} if w == 16 else {tmin + (M - r) // 2}):
                        out += sweep_lines("sweep_ssi", sg, w, n, low % M, (low + r - 1) % M, 4096)
            for r in (3, 257, 32769, 43691, 65535, 65536):
                out += sweep_lines("sweep_uni", True, w, n, (-(r // 2)) % M, (-(r // 2) + r - 1) % M, 4096)
    else:
        for sg in (False, True):
            rs = list(all_ranges(8, sg))
            picks = [rs[rng.below(len(rs))] for _ in range(120)]
            M = 256
            tmin = -128 if sg else 0
            for r in (1, 2, 3, 4, 5, 127, 128, 129, 85, 86, 171, 255, 256):
                picks.append((tmin % M, (tmin + r - 1) % M))
                picks.append(((tmin + (M - r) // 2) % M, (tmin + (M - r) // 2 + r - 1) % M))
            for lowp, highp in picks:
                out += sweep_lines("sweep_ssi", sg, 8, 1, lowp, highp, 256)
                out += sweep_lines("sweep_uni", sg, 8, 1, lowp, highp, 256)
        for (w, n, r) in ((16, 1, 43691), (8, 2, 257)):
            M = 1 << 16
            out += sweep_lines("sweep_ssi", True, w, n, (-(r // 2)) % M, (-(r // 2) + r - 1) % M, 4096)
    # deterministic shuffle: `check` cuts the list into contiguous shards; spread the heavy sweeps over them
    for i in range(len(out) - 1, 0, -1):
        j = rng.below(i + 1)
        out[i], out[j] = out[j], out[i]
    return out


def exhaustive(tier):
    return tier == "thorough"


# ---------- per-value preimage counts (from the outputs of the exhaustive sub-runs) ----------
# `check` hands nontrivial() the model's result of every distinct case; the implementation's result is
# the same text unless the case is reported as a disagreement.  For every (op, config, low, high) whose
# whole word space 0..2^BITS-1 has been swept, the number of RNG words mapped to each value must be
# exactly q = floor(2^BITS / range) for every value of [low, high], 0 outside, and 2^BITS - range*q words
# rejected (full range: every value exactly once).
_acc = {}
STATS = {"ranges_counted": 0, "count_mismatches": 0, "first_mismatch": None}


def _finish(key, counts, rejected, M, sg):
    op, w, n, lowp, highp = key
    r = range_size(lowp, highp, M)
    STATS["ranges_counted"] += 1
    if r == 0:
        ok = rejected == 0 and len(counts) == M and all(c == 1 for c in counts.values())
    else:
        q = M // r
        want = {(lowp + i) % M for i in range(r)}
        ok = rejected == M - r * q and set(counts) == want and all(c == q for c in counts.values())
    if not ok:
        STATS["count_mismatches"] += 1
        if STATS["first_mismatch"] is None:
            STATS["first_mismatch"] = "%s w=%d n=%d low=%x high=%x" % key
        raise RuntimeError("C20 UNBIASEDNESS: preimage counts differ from q for %s w=%d n=%d low=%x high=%x" % key)


def _count(case, result):
    t = case.split(" ")
    op, w, n = t[0], int(t[1]), int(t[2])
    M = 1 << (w * n)
    lowp = from_digits(parse_L(t[3]), w)
    highp = from_digits(parse_L(t[4]), w)
    start, cnt = int(t[5][2:], 16), int(t[6][2:], 16)
    key = (op, w, n, lowp, highp)
    vals = parse_L(result)
    if start == 0 and cnt == M:
        counts, rej, seen = {}, 0, 0
    else:
        counts, rej, seen = _acc.pop(key, ({}, 0, 0))
    for v in vals:
        if v >= M:
            if v > M:
                raise RuntimeError("C20: sweep entry is a panic marker: " + case)
            rej += 1
        else:
            counts[v] = counts.get(v, 0) + 1
    seen += len(vals)
    if seen == M:
        _finish(key, counts, rej, M, op.startswith("I."))
    else:
        _acc[key] = (counts, rej, seen)


def nontrivial(case, result):
    op = case.split(" ", 1)[0]
    if "sweep" in op:
        _count(case, result)
        return True
    if result in ("Panic", "Err:3f"):
        return True
    if op.endswith("standard") or "fill" in op or op.endswith("add_digit"):
        return True
    # a range draw: non-trivial when at least one word was rejected first, or the value drawn is not `low`
    t = case.split(" ")
    w, n = int(t[1]), int(t[2])
    B = nbytes(w, n)
    total = len(parse_L(t[-1]))
    left = int(result.rstrip(")").split("Z:")[-1], 16)
    return (total - left) > B or result[1:].split(" ")[0] != t[3]


_RULE = ("Scripted RNG byte streams (never constant): k rejected boundary words then an accepted one, words whose low "
         "product half lands on zone-1/zone/zone+1/0/MAX (exact hits via the inverse of odd ranges), first/last accepted "
         "word of a value (ceil(h*M/range) and +q-1, +q), counters, only-rejected scripts and partial trailing words "
         "(generator runs dry: Err:3f), x ranges of size 1,2,3,2^k,2^k+-1,M/3,M/2+-1,M-1,M (full, wraps to 0), low at the type "
         "minimum / maximum / spanning zero (signed), exclusive and inclusive forms, low>high sparingly (panic); every "
         "configuration incl. 24,40,48,96,136,192,320-bit; Standard and slice fills with byte counters (order visible), "
         "short / exact / long scripts, len 0..7; k draws from one sampler; Add<Digit> carries. Exhaustive sub-runs: "
         "quick = every RNG word x ~150 ranges at (8,1) signed+unsigned for sample_single_inclusive and Uniform::sample, "
         "2 ranges x every word at 16 bits; thorough = EVERY word x EVERY (low,high) at (8,1) (32896 ranges unsigned, "
         "32896 signed, for sample_single_inclusive and for Uniform::sample), every word x boundary ranges at (16,1) and (8,2). Results carry the "
         "number of script bytes left, so consumption granularity is compared too. Non-trivial = a word was rejected "
         "before the draw / Err / Panic / fills / sweeps.")


def prebuild(root):
    """translator: regenerate coq/Generated/RandGen.v from /repo/src/random.rs (both expansions of uniform_int_impl!, the Standard impls;
    proved equal to the model in Proofs/RandGenTie*.v)"""
    return run_translator(root, "rs2v_rand.py", "C20")


def __getattr__(name):
    if name == "RULE":
        return _RULE + (" PREIMAGE COUNTS: %d fully swept (op,config,low,high) ranges had every value of the range hit by "
                        "exactly q=floor(2^BITS/range) words, none outside, 2^BITS-range*q rejected; mismatches: %d; "
                        "incomplete sweeps left: %d." % (STATS["ranges_counted"], STATS["count_mismatches"], len(_acc)))
    raise AttributeError(name)

"""C04 — panics occur exactly where the primitive integers panic, per build mode.
The operations are those of C01/C02/C03/C05/C06/C08/C17 that have a panic contract; their cases come from those
properties' generators (which concentrate on the representability boundary), run in BOTH build modes."""
from .common import *
from .ops_c04 import OPS
from . import c01, c02, c03, c05, c06, c08, c17

PROP, BIN, RUNMOD, RUNFN = "C04", "c04", "RunC04", "run_C04"
MODES = [True, False]


def gen(rng, tier):
    out = []
    keep = 1
    for m in (c01, c02, c03, c05, c06, c08, c17):
        k = 0
        for ln in m.gen(rng, "quick" if tier == "quick" else "thorough"):
            t = ln.split(" ", 3)
            if t[0] in OPS and (int(t[1]), int(t[2])) in CONFIGS_SMALL:
                k += 1
                if k % keep == 0:
                    out.append(ln)
    return out


RULE = ("operations with a panic contract (operators + - * / % neg << >> with every primitive amount type, pow, abs, "
        "next_power_of_two, next_multiple_of, ilog*, strict_*, and the checked_/wrapping_/overflowing_/saturating_ families) "
        "on the boundary-biased inputs of the owning properties' generators, in builds with and without debug assertions. "
        "Non-trivial = the outcome is a panic in at least one build mode, or the operand pair sits on the representability boundary "
        "(flag/None).")


def observable(case, impl, model, dbg):
    op = case.split(" ", 1)[0]
    parts = op.split(".")
    if len(parts) >= 3 and parts[1] in ("Shl", "Shr"):
        return c17.observable(case, impl, model, dbg)
    if parts[1] in ("shl", "shr", "wrapping_shl", "wrapping_shr", "overflowing_shl", "overflowing_shr"):
        return c05.observable(case, impl, model, dbg)
    return True


def nontrivial(case, result):
    return "Panic" in result or "None" in result or "B:1" in result


def prebuild(root):
    """translator: regenerate coq/Generated/Glue.v from /repo/src (proved equal to the model in Proofs/GlueTieC04.v)"""
    return run_translator(root, "rs2v_glue.py", "C04")

"""C02 — multiplication."""
from .common import *
from .ops_c02 import OPS

PROP, BIN, RUNMOD, RUNFN = "C02", "c02", "RunC02", "run_C02"
MODES = [True, False]


def isqrt(x):
    import math
    return math.isqrt(x)


def gen_lists(rng, op, w, n, count):
    bits = w * n
    M = 1 << bits
    r = rng.below(10)
    signed = op.startswith("I.")
    if r < 3:
        a, b = gen_pair(rng, w, n)
    elif r < 6:
        # product within a few units of 2^BITS or 2^(BITS-1): choose a, then b = target // a (+-1)
        a = gen_value(rng, w, n) or 3
        if signed and rng.chance(1, 2):
            target = M >> 1
            am = signed_abs(a, bits)
        else:
            target = M
            am = a
        am = am or 1
        b = (target // am + rng.below(3) - 1) % M
        if signed and rng.chance(1, 2):
            b = (M - b) % M
    elif r == 6:
        # both near sqrt(2^BITS) (overflow through the last carry only)
        s = isqrt(M - 1)
        a = (s + rng.below(5) - 2) % M
        b = (s + rng.below(5) - 2) % M
    elif r == 7:
        # sparse operands: one non-zero digit each, sum of positions around N (the out-of-range column test)
        i = rng.below(n)
        j = rng.below(n)
        a = gen_digit(rng, w) << (w * i)
        b = gen_digit(rng, w) << (w * j)
    elif r == 8:
        a = rng.choice([M >> 1, M - 1, 1, 0, (M >> 1) - 1, (M >> 1) + 1])
        b = gen_value(rng, w, n)
    else:
        # small * large
        a = rng.bits(rng.below(w) + 1)
        b = gen_value(rng, w, n)
        if signed and rng.chance(1, 2):
            a = (M - a) % M
    if rng.chance(1, 2):
        a, b = b, a
    return [a, b] + [gen_value(rng, w, n) for _ in range(count - 2)]


def signed_abs(v, bits):
    s = signed(v, bits)
    return -s if s < 0 else s


def gen(rng, tier):
    thorough = tier == "thorough"
    out = std_gen(rng, tier, OPS, CONFIGS_ALL if thorough else CONFIGS_QUICK, 300 if thorough else 40, gen_lists=gen_lists, big_divisor=40)
    if thorough:
        out += exhaustive8(OPS)
    return out


def exhaustive(tier):
    return tier == "thorough"


RULE = ("per op x config: boundary grid pairs, then operand pairs built so that the product lands within +-1 of 2^BITS / "
        "2^(BITS-1), both near sqrt(2^BITS), single-digit operands whose digit positions sum to about N (out-of-range column), "
        "MIN/MAX/-1 against anything, small x large; thorough adds all 2^16 pairs at 8 bits. Non-trivial = overflow flag / "
        "None / Panic / saturation, or a non-zero high half.")


def nontrivial(case, result):
    if "B:1" in result or "None" in result or "Panic" in result:
        return True
    if case.startswith("U.widening_mul") or case.startswith("U.carrying_mul"):
        hi = result.rstrip(")").split(" ")[-1]
        return any(int(x, 16) for x in hi[2:].split(","))
    return False


def prebuild(root):
    """translators (the first error text is returned): coq/Generated/DigitGen.v from /repo/src/digit.rs (Proofs/DigitTie.v),
    coq/Generated/Glue.v from the one-line projection functions (Proofs/GlueTie.v), coq/Generated/Loops.v from the loop
    functions of /repo/src/buint (Proofs/LoopsTie*.v) -- each proved equal to the hand-written model"""
    return run_translator(root, "rs2v_digit.py") or run_translator(root, "rs2v_glue.py", "C02") or run_translator(root, "rs2v_loops.py", "C02")

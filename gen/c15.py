"""C15 — byte-slice decoding (from_be_slice / from_le_slice, unsigned and signed) and the
endianness helpers (to_be / from_be / to_le / from_le; with VERIF_NIGHTLY=1 also the nightly-only
to_{be,le,ne}_bytes / from_{be,le,ne}_bytes, which need the harness built by
`cargo +nightly ... --features nightly_bytes`, see tools/c15_nightly.py)."""
import os
from .common import *
from .ops_c15 import OPS

PROP, BIN, RUNMOD, RUNFN = "C15", "c15", "RunC15", "run_C15"
# the code has no cfg(debug_assertions) branch, but the index arithmetic (len - BYTES, j - (i << SHIFT), ...)
# would panic on underflow only with overflow checks on: both profiles are run
MODES = [True, False]

EXTRA_TRUSTED = [
    "C15: to_be/from_be/to_le/from_le and the nightly *_ne_bytes functions select a branch under cfg(target_endian); "
    "the model transcribes the little-endian branch (x86-64 target of the harness and of the pinned command)",
    "C15: uW::from_{be,le}_bytes / to_{be,le}_bytes on primitive digits are modelled in coq/Model/Endian.v (Prim.v style), not verified",
]

NIGHTLY = os.environ.get("VERIF_NIGHTLY", "") == "1"
SLICE_OPS = ["U.from_be_slice", "U.from_le_slice", "I.from_be_slice", "I.from_le_slice"]
SWAP_OPS = {k: v for k, v in OPS.items() if v == "L" and not k.endswith("_bytes")}
NB_TO_OPS = {k: v for k, v in OPS.items() if k.endswith("_bytes") and v == "L"}
NB_FROM_OPS = [k for k, v in OPS.items() if k.endswith("_bytes") and v == "R"]

BOUNDARY = [0x00, 0x01, 0x7f, 0x80, 0xff]


def rand_bytes(rng, k):
    v = rng.bits(8 * k) if k else 0
    return [(v >> (8 * i)) & 0xff for i in range(k)]


def slice_patterns(rng, L, nb, light=False):
    """byte strings of length L in BIG-endian layout (index 0 most significant) for a type of nb bytes;
    the little-endian operations get the mirrored (reversed) strings.  Excess bytes are the indices
    0 .. L-nb-1, the top retained byte is index L-nb, the first (least significant) excess byte L-nb-1."""
    out = []
    if L == 0:
        return [[]]
    ex = max(0, L - nb)            # number of excess bytes
    out.append([0] * L)
    out.append([0xff] * L)
    out.append(rand_bytes(rng, L))

    def base():
        r = rng.below(4)
        b = rand_bytes(rng, L)
        if r == 1:
            b[:ex] = [0] * ex
        elif r == 2:
            b[:ex] = [0xff] * ex
        elif r == 3 and ex:
            # sign padding consistent with the top retained bit
            fill = 0xff if b[ex] & 0x80 else 0
            b[:ex] = [fill] * ex
        return b

    # boundary bytes at the positions that matter
    pos = sorted({p for p in (0, L - 1, L - nb - 1, L - nb) if 0 <= p < L})
    for p in pos:
        vals = BOUNDARY if not light else [rng.choice(BOUNDARY)]
        for v in vals:
            b = base()
            b[p] = v
            out.append(b)
    if ex:
        # zero padding, then one non-zero byte somewhere in the excess (lowest, highest, random position)
        for p in sorted({0, ex - 1, rng.below(ex)}):
            b = rand_bytes(rng, L)
            b[:ex] = [0] * ex
            b[p] = rng.choice([0x01, 0x80, 0xff, rng.below(255) + 1])
            if rng.chance(1, 2):
                b[ex] &= 0x7f
            out.append(b)
        # 0xff padding with one byte that is not 0xff
        for p in sorted({0, ex - 1, rng.below(ex)}):
            b = rand_bytes(rng, L)
            b[:ex] = [0xff] * ex
            b[p] = rng.choice([0x00, 0x7f, 0xfe, rng.below(255)])
            if rng.chance(1, 2):
                b[ex] |= 0x80
            out.append(b)
        # pure padding (0x00 / 0xff) with the top retained bit 0 / 1: four combinations
        for fill in (0x00, 0xff):
            for top in (0, 1):
                b = rand_bytes(rng, L)
                b[:ex] = [fill] * ex
                b[ex] = (b[ex] & 0x7f) | (top << 7)
                out.append(b)
                if not light:
                    # the extreme values next to the sign boundary
                    b2 = [fill] * ex + [0x80 if top else 0x7f] + [0x00 if top else 0xff] * (L - ex - 1)
                    out.append(b2)
    else:
        # short or exact slice: sign decided by the first byte, sign / zero extension
        for first in (0x7f, 0x80):
            b = rand_bytes(rng, L)
            b[0] = first
            out.append(b)
        out.append([0x80] + [0] * (L - 1))
        out.append([0x7f] + [0xff] * (L - 1))
    return out


def lengths_for(rng, nb, thorough):
    top = 2 * nb + 2
    if nb <= 200:
        return list(range(0, top + 1))
    # (64,128): 1024 bytes.  quick never gets here; thorough: every length
    return list(range(0, top + 1))


def gen_slices(rng, configs, thorough):
    out = []
    for (w, n) in configs:
        nb = w * n // 8
        big = nb > 200
        for L in lengths_for(rng, nb, thorough):
            pats = slice_patterns(rng, L, nb, light=big)
            if big:
                # every length, but a rotating subset of the content patterns (1 KiB strings)
                k = 5
                start = rng.below(len(pats))
                pats = [pats[(start + j * 7) % len(pats)] for j in range(min(k, len(pats)))]
            for bs in pats:
                for op in SLICE_OPS:
                    if big and not rng.chance(1, 2):
                        continue
                    arg = bs if "_be_" in op else bs[::-1]
                    out.append("%s %d %d %s" % (op, w, n, tokL(arg)))
    return out


def gen_alphabet(configs, maxlen, alphabet):
    """every byte string over `alphabet` of length <= maxlen"""
    out = []
    strings = [[]]
    layer = [[]]
    for _ in range(maxlen):
        layer = [s + [a] for s in layer for a in alphabet]
        strings += layer
    toks = [tokL(s) for s in strings]
    for (w, n) in configs:
        for op in SLICE_OPS:
            for t in toks:
                out.append("%s %d %d %s" % (op, w, n, t))
    return out


def gen_from_bytes(rng, configs, per):
    out = []
    for (w, n) in configs:
        nb = w * n // 8
        k = per if nb <= 200 else max(3, per // 8)
        for op in NB_FROM_OPS:
            pats = [[0] * nb, [0xff] * nb]
            for p in sorted({0, nb - 1, nb // 2, w // 8 - 1, nb - w // 8}):
                for v in BOUNDARY:
                    b = rand_bytes(rng, nb)
                    b[p] = v
                    pats.append(b)
            pats += [rand_bytes(rng, nb) for _ in range(k)]
            pats.append(list(range(1, nb + 1)) if nb < 255 else [(i % 251) + 1 for i in range(nb)])
            for b in pats:
                out.append("%s %d %d %s" % (op, w, n, tokL(b)))
    return out


SMALL = [(8, 1), (8, 2), (8, 3), (8, 4), (16, 1), (16, 2), (32, 1)]


def gen(rng, tier):
    thorough = tier == "thorough"
    configs = CONFIGS_ALL if thorough else CONFIGS_QUICK
    out = []
    if not NIGHTLY or os.environ.get("VERIF_NIGHTLY_ONLY", "") != "1":
        out += gen_slices(rng, configs, thorough)
        out += gen_alphabet(SMALL, 6 if thorough else 4, BOUNDARY)
        if thorough:
            # all byte strings of length <= 2 at 8 bits
            out += gen_alphabet([(8, 1)], 2, list(range(256)))
        out += std_gen(rng, tier, SWAP_OPS, configs, 120 if thorough else 30, big_divisor=6)
        if thorough:
            out += exhaustive8(SWAP_OPS)
    if NIGHTLY:
        out += std_gen(rng, tier, NB_TO_OPS, configs, 120 if thorough else 30, big_divisor=6)
        out += gen_from_bytes(rng, configs, 60 if thorough else 16)
        if thorough:
            out += exhaustive8(NB_TO_OPS)
    return out


def exhaustive(tier):
    return tier == "thorough"


IMPL_ONLY = {"U.huge_from_be_slice", "U.huge_from_le_slice", "I.huge_from_be_slice", "I.huge_from_le_slice"}


def sequential_cases(tier):
    """thorough tier only, implementation only, one process at a time: slices whose LENGTH does not fit a u32
    (head ++ 2^32 fill bytes ++ tail, built inside the harness).  Expected results follow from the property text
    (and from theorems C15_U/I_from_*_slice, which hold for byte strings of any length): Some(v) iff every byte beyond
    the integer's width is padding (0x00, or the sign extension for signed targets).  Skipped when less than 12 GiB of
    memory is free."""
    if tier != "thorough":
        return []
    try:
        avail = [int(l.split()[1]) for l in open("/proc/meminfo") if l.startswith("MemAvailable")][0] // (1 << 20)
    except Exception:
        avail = 0
    if avail < 12:
        return []
    out = []
    E = "L:"
    # unsigned, big-endian: 2^32 zero bytes of padding then the value 0x2a / a non-zero byte in the padding region
    out.append(("U.huge_from_be_slice 64 1 Z:20 Z:0 %s L:2a" % E, "Some(L:2a)", "2^32 zero bytes + 0x2a, be"))
    out.append(("U.huge_from_be_slice 64 1 Z:20 Z:0 L:1 L:0,0,0,0,0,0,0,2a", "None", "0x01 + 2^32 zero bytes + 8 value bytes, be: not representable"))
    out.append(("U.huge_from_be_slice 8 3 Z:20 Z:0 L:0,0,5 L:0,0,1,2,3", "None", "non-zero byte 2^32+2 positions above the value, be, u8 digits"))
    out.append(("U.huge_from_be_slice 32 2 Z:20 Z:0 L:0 L:1,2,3,4,5,6,7,8", "Some(L:5060708,1020304)", "2^32+1 zero bytes + 8 value bytes, be, u32 digits"))
    # unsigned, little-endian: value first, padding after
    out.append(("U.huge_from_le_slice 64 1 Z:20 Z:0 L:2a %s" % E, "Some(L:2a)", "0x2a + 2^32 zero bytes, le"))
    out.append(("U.huge_from_le_slice 16 2 Z:20 Z:0 L:1,2,3,4 L:0,0,1", "None", "non-zero byte 2^32+2 positions above the value, le"))
    # signed: 0xff padding of a negative value / a padding byte of the wrong sign
    out.append(("I.huge_from_be_slice 64 1 Z:20 Z:ff %s L:d6" % E, "Some(L:ffffffffffffffd6)", "2^32 0xff bytes + 0xd6 = -42, be"))
    out.append(("I.huge_from_be_slice 8 2 Z:20 Z:ff L:0 L:ff,d6", "None", "0x00 above 2^32 0xff bytes, be: sign mismatch"))
    out.append(("I.huge_from_le_slice 32 1 Z:20 Z:ff L:d6,ff,ff,ff %s" % E, "Some(L:ffffffd6)", "-42 + 2^32 0xff bytes, le"))
    out.append(("I.huge_from_le_slice 64 1 Z:20 Z:0 L:d6,ff,ff,ff,ff,ff,ff,ff %s" % E, "None", "negative value + 2^32 zero bytes, le: sign mismatch"))
    return out


RULE = ("slices: EVERY length 0..2*BYTES+2 at every configuration, contents: all 0x00, all 0xff, random, the boundary bytes "
        "00/01/7f/80/ff at the first byte, the last byte, the top retained byte and the first excess byte (over random, "
        "zero-padded, ff-padded and sign-consistent bases), zero padding with one non-zero excess byte (lowest / highest / "
        "random position), 0xff padding with one non-0xff byte, pure 00/ff padding x top retained bit 0/1 and the extreme "
        "values at the sign boundary, short slices with first byte 7f/80; le operations get the mirrored strings; all strings "
        "over {00,01,7f,80,ff} of length <= 4 (thorough: <= 6) at the 7 smallest configurations; thorough: all strings of "
        "length <= 2 at 8 bits, (64,128) with every length and a rotating pattern subset. to_be/from_be/to_le/from_le: boundary "
        "grid + boundary-biased values per op x config, thorough all 256 values at 8 bits.  With VERIF_NIGHTLY=1 (nightly "
        "harness build): to_*_bytes on the same value mixture, from_*_bytes on boundary-byte arrays.  Thorough, implementation only: "
        "ten slices of more than 2^32 bytes (padding region longer than a u32 can count), expected result from the theorem.  Non-trivial = a "
        "non-empty, not all-zero slice / a value that is not its own byte reversal (to_be, from_be) or non-zero.")


def nontrivial(case, result):
    toks = case.split(" ")
    op = toks[0]
    ls = parse_L(toks[3])
    if op.endswith("_slice") or op.endswith("_bytes"):
        return any(x != 0 for x in ls)
    if op.endswith("_be"):
        return result != toks[3]
    return any(x != 0 for x in ls)


def prebuild(root):
    """translator (its error text is returned): coq/Generated/EndianGen.v from /repo/src/buint/endian.rs and /repo/src/bint/endian.rs
    (Proofs/EndianGenTie*.v: every generated function proved equal to the hand-written model Model/Endian.v)"""
    return run_translator(root, "rs2v_endian.py", "C15")

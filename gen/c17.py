"""C17 — operator traits, assign forms, reference forms, iterator folds."""
from .common import *
from .ops_c17 import OPS

PROP, BIN, RUNMOD, RUNFN = "C17", "c17", "RunC17", "run_C17"
MODES = [True, False]

PRIM = {"u8": (0, 8), "u16": (0, 16), "u32": (0, 32), "u64": (0, 64), "u128": (0, 128), "usize": (0, 64),
        "i8": (1, 8), "i16": (1, 16), "i32": (1, 32), "i64": (1, 64), "i128": (1, 128), "isize": (1, 64)}


def gen_amount(rng, ty, bits):
    sg, k = PRIM[ty]
    lo = -(1 << (k - 1)) if sg else 0
    hi = (1 << (k - 1)) - 1 if sg else (1 << k) - 1
    r = rng.below(12)
    if r < 6:
        v = rng.below(bits)
    elif r == 6:
        v = rng.choice([bits - 1, bits, bits + 1, 2 * bits, 0, 1])
    elif r == 7:
        v = -(rng.below(bits) + 1)
    elif r == 8:
        v = rng.choice([lo, hi, hi - 1, lo + 1, -1])
    elif r == 9:
        v = (1 << 32) + rng.below(bits)            # > u32::MAX: truncates to a small amount in release builds
    elif r == 10:
        v = rng.choice([(1 << 32) - 1, 1 << 32, (1 << 31), (1 << 63), -(1 << 32) + 3])
    else:
        v = rng.bits(k) + lo
    return max(lo, min(hi, v))


def gen_case(rng, op, sig, w, n):
    bits = w * n
    M = 1 << bits
    parts = op.split(".")
    tr = parts[1]
    if tr in ("Shl", "Shr") and len(parts) == 4 and parts[2] in PRIM:
        return [gen_value(rng, w, n), gen_amount(rng, parts[2], bits)]
    if tr in ("Shl", "Shr") and len(parts) == 3:      # inherent, ExpType amount
        return [gen_value(rng, w, n), rng.choice([rng.below(bits), bits, bits + 1, rng.bits(32), 0, bits - 1])]
    if tr in ("Shl", "Shr"):                          # bnum-typed amounts
        r = rng.below(10)
        if r < 6:
            amt = rng.below(bits)
        elif r == 6:
            amt = rng.choice([bits, bits + 1, bits - 1, 0])
        elif r == 7:
            amt = (1 << 32) + rng.below(5) if bits > 32 else (M - 1)
        elif r == 8:
            amt = M - 1 - rng.below(3)                 # huge unsigned / negative signed
        else:
            amt = rng.bits(min(bits, 33))
        return [gen_value(rng, w, n), amt % M]
    if tr in ("AddDigit", "DivDigit", "RemDigit"):
        d = gen_digit(rng, w)
        if tr != "AddDigit" and rng.chance(1, 12):
            d = 0
        a = gen_value(rng, w, n)
        if tr == "AddDigit" and rng.chance(1, 3):
            # long carry chain: low digits all ones
            k = rng.below(n + 1)
            a = (a | ((1 << (w * k)) - 1)) % M
        return [a, d]
    if tr == "FromStr":
        r = rng.below(8)
        digs = "".join(rng.choice("0123456789") for _ in range(rng.below(2 * (bits // 3) + 3)))
        if r == 0:
            s = ""
        elif r == 1:
            s = rng.choice(["+", "-", "++1", "-+1", " 1", "1 ", "0x10", "1_0", "१"])
        elif r == 2:
            s = "-" + digs
        elif r == 3:
            s = "+" + "0" * rng.below(10) + digs
        elif r == 4:
            v = rng.choice([M - 1, M, M >> 1, (M >> 1) - 1, (M >> 1) + 1, 0])
            s = rng.choice(["", "-", "+"]) + str(v)
        else:
            s = digs
        return [list(s.encode("utf-8"))]
    nl = sig.count("L")
    if tr in ("Sum3", "SumRef3", "Product3", "ProductRef3"):
        if rng.chance(1, 2):
            vs = [rng.bits(rng.below(max(2, bits // 3)) + 1) for _ in range(3)]
            if op.startswith("I.") and rng.chance(1, 2):
                vs = [(M - v) % M if rng.chance(1, 2) else v for v in vs]
            return vs
        return [gen_value(rng, w, n) for _ in range(3)]
    if nl == 2:
        a, b = gen_pair(rng, w, n)
        if tr in ("Div", "Rem"):
            r = rng.below(10)
            if r == 0:
                b = 0
            elif r == 1:
                a, b = M >> 1, M - 1
            elif r < 5:
                b = rng.bits(rng.below(bits) + 1) or 1
        if tr == "Mul" and rng.chance(1, 2):
            a = rng.bits(rng.below(bits // 2 + 2) + 1)
            b = rng.bits(rng.below(bits // 2 + 2) + 1)
        return [a, b]
    return [gen_value(rng, w, n) for _ in range(nl)]


def gen(rng, tier):
    thorough = tier == "thorough"
    configs = CONFIGS_SMALL
    per = 80 if thorough else 7
    out = []
    for op, sig in OPS.items():
        for (w, n) in configs:
            k = per if w * n <= 1100 else 2
            for _ in range(k):
                out.append(fmt_line(op, w, n, gen_case(rng, op, sig, w, n), sig))
    return out


RULE = ("every trait impl the macros generate is a separate op (4 operand-reference combinations, 2 assign forms, the inherent "
        "twin and the UFCS call, for 8 binary operators; Neg/Not by value and by reference; Shl/Shr/ShlAssign/ShrAssign for the "
        "12 primitive amount types and for BUint/BInt amounts; Add/Div/Rem<digit>; Sum/Product over values and references; "
        "Default; FromStr vs from_str_radix 10). Operands boundary-biased; amounts: below BITS, BITS, BITS+1, negative, type "
        "MIN/MAX, above u32::MAX. Non-trivial = Panic, or an amount not a multiple of the digit width, or operands whose "
        "result differs from both operands.")


def is_pow2(x):
    return x & (x - 1) == 0


def observable(case, impl, model, dbg):
    """In release builds a shift by an effective amount >= BITS wraps with `& (BITS-1)`; C05 constrains that value only
    for power-of-two BITS.  Everything else is compared."""
    toks = case.split(" ")
    parts = toks[0].split(".")
    if parts[1] not in ("Shl", "Shr") or dbg:
        return True
    w, n = int(toks[1]), int(toks[2])
    bits = w * n
    if is_pow2(bits):
        return True
    if toks[4].startswith("Z:"):
        amt = int(toks[4][2:].replace("-", "-0x") if False else toks[4][2:], 16) if not toks[4][2:].startswith("-") else -int(toks[4][3:], 16)
        eff = amt % (1 << 32)
    else:
        eff = from_digits(parse_L(toks[4]), w)
        if eff >= (1 << 32):
            return True
    return eff < bits


def nontrivial(case, result):
    if "Panic" in result:
        return True
    toks = case.split(" ")
    w = int(toks[1])
    if len(toks) > 4 and toks[4].startswith("Z:"):
        return int(toks[4][2:].lstrip("-") or "0", 16) % w != 0
    ls = [t for t in toks[3:] if t.startswith("L:")]
    return len(ls) >= 2 and result not in ls


def prebuild(root):
    """translator: regenerate coq/Generated/Glue.v from /repo/src (its C17 phase - the reference / assign / bnum-amount operator
    forms, Sum / Product / Default - is proved equal to the model in Proofs/GlueTieC17.v)"""
    return run_translator(root, "rs2v_glue.py", "C17")

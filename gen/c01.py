"""C01 — add / sub / neg / abs family."""
from .common import *

PROP = "C01"
BIN = "c01"
RUNMOD = "RunC01"
RUNFN = "run_C01"
MODES = [True, False]          # cfg(debug_assertions) on / off

# signature: L = digit list of the configuration, B = bool
from .ops_c01 import OPS


def line(op, w, n, vals, sig):
    toks = []
    for v, s in zip(vals, sig):
        toks.append(tokV(v, w, n) if s == "L" else tokB(v))
    return "%s %d %d %s" % (op, w, n, " ".join(toks))


def gen(rng, tier):
    thorough = tier == "thorough"
    configs = CONFIGS_ALL if thorough else CONFIGS_QUICK
    per = 220 if thorough else 22
    out = []
    for op, sig in OPS.items():
        for (w, n) in configs:
            k = per if w * n <= 1100 else max(2, per // 20)
            # boundary grid first
            bv = boundary_values(w, n)
            if sig[0:2] == "LL":
                grid = 60 if thorough else 6
                for _ in range(grid):
                    vals = [rng.choice(bv), rng.choice(bv)] + [rng.chance(1, 2)] * (len(sig) - 2)
                    out.append(line(op, w, n, vals, sig))
                for _ in range(k):
                    a, b = gen_pair(rng, w, n)
                    vals = [a, b] + [rng.chance(1, 2)] * (len(sig) - 2)
                    out.append(line(op, w, n, vals, sig))
            else:
                for v in (bv if (thorough or len(bv) < 12) else [rng.choice(bv) for _ in range(10)]):
                    out.append(line(op, w, n, [v], sig))
                for _ in range(k):
                    out.append(line(op, w, n, [gen_value(rng, w, n)], sig))
    if thorough:
        # exhaustive 8-bit sub-run: every operand pair / operand, every op
        for op, sig in OPS.items():
            if sig == "L":
                for a in range(256):
                    out.append(line(op, 8, 1, [a], sig))
            elif sig == "LL":
                for a in range(256):
                    for b in range(256):
                        out.append(line(op, 8, 1, [a, b], sig))
            else:
                for a in range(256):
                    for b in range(256):
                        for c in (False, True):
                            out.append(line(op, 8, 1, [a, b, c], sig))
    return out


def exhaustive(tier):
    return tier == "thorough"


RULE = ("per op x config: pairs from a grid of boundary values (0, 1, MAX, MIN, digit boundaries +-1), then "
        "boundary-biased related pairs (b = a+-k, a+b near 2^BITS and 2^(BITS-1), complement, equal); thorough adds all "
        "2^16 (x2 carry) operand tuples at 8 bits for every op. Non-trivial = the result carries an overflow flag, None, "
        "Panic or a saturated bound, or an operand pair whose sum/difference carries across at least one digit boundary.")


def nontrivial(case, result):
    if "B:1" in result or "None" in result or "Panic" in result:
        return True
    toks = case.split(" ")
    w = int(toks[1])
    ls = [t for t in toks[3:] if t.startswith("L:")]
    if len(ls) == 2:
        a = [int(x, 16) for x in ls[0][2:].split(",")]
        b = [int(x, 16) for x in ls[1][2:].split(",")]
        if len(a) > 1 and (a[0] + b[0] >= (1 << w) or a[0] < b[0]):
            return True
    return False


def prebuild(root):
    """translators (the first error text is returned): coq/Generated/DigitGen.v from /repo/src/digit.rs (Proofs/DigitTie.v),
    coq/Generated/Glue.v from the one-line projection functions (Proofs/GlueTie.v), coq/Generated/Loops.v from the loop
    functions of /repo/src/buint (Proofs/LoopsTie*.v) -- each proved equal to the hand-written model"""
    return run_translator(root, "rs2v_digit.py") or run_translator(root, "rs2v_glue.py", "C01") or run_translator(root, "rs2v_loops.py", "C01")

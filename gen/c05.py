"""C05 — shifts and rotations."""
from .common import *
from .ops_c05 import OPS

PROP, BIN, RUNMOD, RUNFN = "C05", "c05", "RunC05", "run_C05"
MODES = [True, False]


def gen_z(rng, op, w, n, k):
    bits = w * n
    r = rng.below(10)
    if r < 4:
        return rng.below(bits)
    if r < 6:
        d = rng.below(n + 1) * w + rng.below(3) - 1
        return max(0, d)
    if r == 6:
        return rng.choice([bits - 1, bits, bits + 1, 2 * bits - 1, 2 * bits, 2 * bits + 1, 0, 1])
    if r == 7:
        return rng.choice([1 << 31, (1 << 32) - 1, (1 << 32) - bits, (1 << 16), 255, 256, 64, 63, 65, 128])
    if r == 8:
        return rng.below(3 * bits + 2)
    return rng.bits(32)


def is_pow2(x):
    return x & (x - 1) == 0


INTERNAL = ("U.int.shl_internal", "U.int.shr_pad_internal", "U.int.rotate_digits_left", "U.int.unchecked_rotate_left")


def gen_internal(rng, tier, configs):
    """internal shift / rotate functions through the hooks, amounts inside their callers' contracts
    (shift < BITS, rotate amount <= BITS, digit rotation <= N)"""
    out = []
    per = 150 if tier == "thorough" else 20
    for (w, n) in configs:
        bits = w * n
        k = per if bits <= 1100 else 3
        for _ in range(k):
            v = gen_value(rng, w, n)
            s = rng.choice([rng.below(bits), max(0, min(bits - 1, rng.below(n + 1) * w + rng.below(3) - 1)), 0, bits - 1])
            out.append(fmt_line("U.int.shl_internal", w, n, [v, s], "LZ"))
            out.append(fmt_line("U.int.shr_pad_internal", w, n, [v, s, rng.chance(1, 2)], "LZB"))
            out.append(fmt_line("U.int.rotate_digits_left", w, n, [v, rng.below(n + 1)], "LZ"))
            r = rng.choice([rng.below(bits + 1), bits, 0, min(bits, rng.below(n + 1) * w)])
            out.append(fmt_line("U.int.unchecked_rotate_left", w, n, [v, r], "LZ"))
    return out


def gen(rng, tier):
    thorough = tier == "thorough"
    configs = CONFIGS_ALL if thorough else CONFIGS_QUICK
    out = std_gen(rng, tier, {k: v for k, v in OPS.items() if k not in INTERNAL}, configs, 300 if thorough else 40, gen_z=gen_z, big_divisor=20)
    out += gen_internal(rng, tier, configs)
    # every amount 0..2*BITS+1 on boundary values at small widths
    small = [(8, 1), (8, 2), (8, 3), (16, 1), (16, 3)] if thorough else [(8, 3), (16, 1)]
    for (w, n) in small:
        bv = boundary_values(w, n)
        vals = bv if thorough else [rng.choice(bv) for _ in range(4)] + [gen_value(rng, w, n) for _ in range(2)]
        for op, sig in OPS.items():
            if op in INTERNAL:
                continue
            for v in vals:
                for s in range(0, 2 * w * n + 2):
                    out.append(fmt_line(op, w, n, [v, s], sig))
    return out


RULE = ("per op x config: values from the boundary grid and the biased mixture x amounts from: uniform below BITS, every "
        "digit boundary +-1, BITS-1/BITS/BITS+1/2*BITS+-1, 2^31, u32::MAX, random u32; plus every amount 0..2*BITS+1 on "
        "boundary values at small widths (24- and 48-bit included). Non-trivial = amount not a multiple of the digit width, "
        "or >= BITS.")


def observable(case, impl, model, dbg):
    """wrapping_/overflowing_ shifts (and the inherent shl/shr in release builds) with an amount >= BITS are
    constrained by C05 only when BITS is a power of two; at other widths the *value* is unconstrained
    (the flag still is).  The model transcribes the code's `& (BITS-1)`, so any difference there is drift."""
    toks = case.split(" ")
    if toks[0] in INTERNAL:
        return True
    op = toks[0].split(".")[1]
    w, n = int(toks[1]), int(toks[2])
    bits = w * n
    amt = int(toks[4][2:], 16)
    if amt >= bits and not is_pow2(bits) and op in ("wrapping_shl", "wrapping_shr", "overflowing_shl", "overflowing_shr", "shl", "shr"):
        if op.startswith("overflowing"):
            # the flag must still be right
            return impl.split(" ")[-1] != model.split(" ")[-1]
        if op in ("shl", "shr") and dbg:
            return True
        return False
    return True


def nontrivial(case, result):
    toks = case.split(" ")
    w, n = int(toks[1]), int(toks[2])
    amt = int(toks[4][2:], 16)
    return amt % w != 0 or amt >= w * n


def prebuild(root):
    """translators: coq/Generated/Glue.v (one-line projection functions; Proofs/GlueTie.v) and coq/Generated/Loops.v (loop
    functions of /repo/src/buint; Proofs/LoopsTieC05.v), each proved equal to the hand-written model"""
    return run_translator(root, "rs2v_glue.py", "C05") or run_translator(root, "rs2v_loops.py", "C05")

"""C09 — integer casts (As / CastFrom) between bnum integers of all digit types, primitive integers, bool, char;
bit-preserving reinterpretations.  Protocol: coq/Run/RunC09.v; Rust side harness/src/bin/c09.rs."""
from .common import *

PROP, BIN, RUNMOD, RUNFN = "C09", "c09", "RunC09", "run_C09"
MODES = [True, False]

# the configuration grid of harness/src/bin/c09.rs (all four digit types; widths that are not multiples of each
# other: 24, 40, 136 bits against 16/32/64-bit digits; 48, 80, 96, 192 bits)
# (8, 300): more than 256 digits (narrow counters); (64, 1025): wider than 2^16 bits (narrow width arithmetic)
CFG = [(8, 1), (8, 2), (8, 3), (8, 5), (8, 17), (8, 300), (16, 1), (16, 3), (16, 5), (32, 1), (32, 3), (64, 1), (64, 2), (64, 3), (64, 1025)]
# (bits, signed); bits 0 = usize / isize (to_size / from_size)
PRIMS = [(b, s) for s in (False, True) for b in (8, 16, 32, 64, 128, 0)]


def pbits(b):
    return 64 if b == 0 else b


def cast_line(w, n, w2, n2, ss, dsg, v):
    return "cast %d %d %s %s %s %s %s" % (w, n, tokZ(w2), tokZ(n2), tokB(ss), tokB(dsg), tokV(v, w, n))


def to_prim_line(w, n, b, ps, ss, v):
    if b == 0:
        return "to_size %d %d %s %s %s" % (w, n, tokB(ps), tokB(ss), tokV(v, w, n))
    return "to_prim %d %d %s %s %s %s" % (w, n, tokZ(b), tokB(ps), tokB(ss), tokV(v, w, n))


def from_prim_line(w, n, b, ps, dsg, v):
    if b == 0:
        return "from_size %d %d %s %s %s" % (w, n, tokB(ps), tokB(dsg), tokZ(v))
    return "from_prim %d %d %s %s %s %s" % (w, n, tokZ(b), tokB(ps), tokB(dsg), tokZ(v))


def structured_sources(w, n, tb, wds):
    """bit patterns of a (w, n) source aimed at a target of tb bits whose digit widths (either side) are `wds`:
    the top bit of a target-sized chunk set / clear, all-ones and single bits at every digit boundary of either
    digit type, negative values whose run of sign bits starts exactly at / one off a digit boundary."""
    sb = w * n
    M = 1 << sb
    vs = set(boundary_values(w, n))
    ks = set()
    for wd in wds:
        ks |= set(range(wd, sb, wd))
    if tb < sb:
        ks.add(tb)
    if len(ks) > 240:
        # very wide source: the lowest and highest boundaries, those next to the target width, next to 2^15 / 2^16 bits and
        # next to digit 256 (narrow counters / narrow width arithmetic), and an evenly spaced sample
        srt = sorted(ks)
        near = lambda x: [k for k in srt if abs(k - x) <= 2 * max(wds)]
        keep = set(srt[:40]) | set(srt[-40:]) | set(srt[::max(1, len(srt) // 60)])
        for x in (tb, 1 << 15, 1 << 16, 256 * w, 255 * w, 257 * w):
            keep |= set(near(x))
        ks = keep
    for k in ks:
        for d in (-1, 0, 1):
            vs.add(((1 << k) + d) % M)          # 0..01 0..0 | 0..0 1..1
            vs.add((M - (1 << k) + d) % M)      # 1..1 0..0  (sign extension starts at bit k)
        vs.add(((1 << k) | (1 << (k - 1))) % M)
        vs.add((M - (1 << k) - (1 << (k - 1))) % M)
        vs.add((1 << (k - 1)) % M)              # top bit of the chunk below the boundary
        vs.add((M - (1 << (k - 1))) % M)
    if tb <= sb:
        vs |= {(1 << (tb - 1)) % M, ((1 << (tb - 1)) - 1) % M, ((1 << tb) - 1) % M, (M - (1 << (tb - 1))) % M,
               (M - (1 << (tb - 1)) - 1) % M}
    return sorted(vs)


def random_source(rng, w, n, tb):
    sb = w * n
    M = 1 << sb
    r = rng.below(8)
    if r < 3:
        return gen_value(rng, w, n)
    if r == 3:
        # negative, sign run of random length
        k = rng.below(sb)
        return (M - (1 << k) + rng.bits(k)) % M if k else M - 1
    if r == 4:
        # random below, top bit of a target-sized chunk forced on, random above
        k = min(tb, sb)
        return (rng.bits(sb) | (1 << (k - 1))) % M
    if r == 5:
        # non-negative with a short run of zeros on top
        k = rng.below(sb) + 1
        return rng.bits(k)
    if r == 6:
        ds = [gen_digit(rng, w) for _ in range(n)]
        return from_digits(ds, w)
    return rng.bits(sb)


def prim_values(b, ps):
    bits = pbits(b)
    M = 1 << bits
    pats = {0, 1, 2, M - 1, M - 2, M >> 1, (M >> 1) - 1, (M >> 1) + 1}
    for k in range(8, bits, 8):
        pats |= {1 << k, (1 << k) - 1, (1 << k) + 1, M - (1 << k), M - (1 << k) - 1, M - (1 << k) + 1,
                 1 << (k - 1), M - (1 << (k - 1))}
    return sorted(signed(p, bits) if ps else p for p in pats)


def random_prim(rng, b, ps):
    bits = pbits(b)
    r = rng.below(6)
    if r < 2:
        p = rng.bits(bits)
    elif r == 2:
        p = rng.bits(rng.below(bits) + 1)
    elif r == 3:
        k = rng.below(bits)
        p = ((1 << bits) - (1 << k) + rng.bits(k)) % (1 << bits)
    elif r == 4:
        p = from_digits([gen_digit(rng, 8) for _ in range(bits // 8)], 8)
    else:
        p = rng.choice([0, 1, (1 << bits) - 1, 1 << (bits - 1), (1 << (bits - 1)) - 1])
    return signed(p, bits) if ps else p


CHARS = [0, 1, 0x41, 0x7f, 0x80, 0xff, 0x100, 0x7ff, 0x800, 0xd7ff, 0xe000, 0xffff, 0x10000, 0x10ffff, 0xfffd, 0x1f600]


def gen(rng, tier):
    thorough = tier == "thorough"
    out = []
    per_s, per_r = (40, 40) if thorough else (10, 8)
    # ---- bnum -> bnum, all ordered pairs of the grid x source signedness (target signedness alternates/random)
    for (w, n) in CFG:
        for (w2, n2) in CFG:
            tb = w2 * n2
            st = structured_sources(w, n, tb, {w, w2})
            for ss in (False, True):
                vs = [rng.choice(st) for _ in range(per_s)] + [random_source(rng, w, n, tb) for _ in range(per_r)]
                # always: -1, MIN, MAX, the most negative value that still fits the target
                M = 1 << (w * n)
                vs += [M - 1, M >> 1, (M >> 1) - 1]
                for v in vs:
                    out.append(cast_line(w, n, w2, n2, ss, rng.chance(1, 2), v))
    # ---- bnum -> primitive
    for (w, n) in CFG:
        for (b, ps) in PRIMS:
            tb = pbits(b)
            st = structured_sources(w, n, tb, {w})
            for ss in (False, True):
                vs = [rng.choice(st) for _ in range(per_s)] + [random_source(rng, w, n, tb) for _ in range(per_r)]
                M = 1 << (w * n)
                vs += [M - 1, M >> 1, (M >> 1) - 1]
                for v in vs:
                    out.append(to_prim_line(w, n, b, ps, ss, v))
    # ---- primitive -> bnum
    for (w, n) in CFG:
        for (b, ps) in PRIMS:
            pv = prim_values(b, ps)
            for dsg in (False, True):
                vs = [rng.choice(pv) for _ in range(per_s)] + [random_prim(rng, b, ps) for _ in range(per_r)]
                bits = pbits(b)
                vs += [signed((1 << bits) - 1, bits) if ps else (1 << bits) - 1, signed(1 << (bits - 1), bits) if ps else 1 << (bits - 1), 0]
                for v in vs:
                    out.append(from_prim_line(w, n, b, ps, dsg, v))
    # ---- bool, char, reinterpretations
    for (w, n) in CFG:
        for dsg in (False, True):
            for bv in (False, True):
                out.append("from_bool %d %d %s %s" % (w, n, tokB(dsg), tokB(bv)))
            cs = CHARS + [rng.below(0xd800) for _ in range(4)] + [0xe000 + rng.below(0x110000 - 0xe000) for _ in range(4)]
            for c in cs:
                out.append("from_char %d %d %s %s" % (w, n, tokB(dsg), tokZ(c)))
        bv = boundary_values(w, n)
        for op in ("cast_signed", "cast_unsigned", "to_bits", "from_bits"):
            for v in [rng.choice(bv) for _ in range(4)] + [gen_value(rng, w, n) for _ in range(per_r)]:
                out.append("%s %d %d %s" % (op, w, n, tokV(v, w, n)))
    if thorough:
        # ---- every 16-bit source, both signednesses, into every bnum target and every primitive
        for (w, n) in ((8, 2), (16, 1)):
            for v in range(1 << 16):
                tv = tokV(v, w, n)
                for (w2, n2) in CFG:
                    for ss in (False, True):
                        out.append("cast %d %d %s %s %s %s %s" % (w, n, tokZ(w2), tokZ(n2), tokB(ss), tokB((v ^ n2) & 1 == 1), tv))
                for (b, ps) in PRIMS:
                    for ss in (False, True):
                        out.append(to_prim_line(w, n, b, ps, ss, v))
        # ---- every u8 / i8 value and every u16 / i16 value into every target
        for (w, n) in CFG:
            for dsg in (False, True):
                for v in range(256):
                    out.append(from_prim_line(w, n, 8, False, dsg, v))
                    out.append(from_prim_line(w, n, 8, True, dsg, v - 128))
                for v in range(0, 1 << 16):
                    if (v % 2 == 1) == dsg or v < 512 or v >= 65024:
                        out.append(from_prim_line(w, n, 16, False, dsg, v))
                        out.append(from_prim_line(w, n, 16, True, dsg, v - 32768))
    return out


def exhaustive(tier):
    return tier == "thorough"


RULE = ("bnum->bnum: every ordered pair of a 13-config grid over all four digit types (8..192 bits, incl. 24/40/136-bit "
        "widths that are not multiples of the other side's digit) x source signedness: single bits, all-ones runs and "
        "sign-extension starts at and one off every digit boundary of either digit type and at the target width, top bit "
        "of the target-sized chunk set/clear, MIN/MAX/-1, boundary-biased random values; bnum<->all 12 primitive "
        "integers likewise (primitive values: sign runs starting at every byte boundary); bool, char (incl. surrogate "
        "edges, max scalar), reinterpretations.  Thorough adds all 2^16 sources of (8,2) and (16,1), both signednesses, "
        "into every bnum target and primitive, and all u8/i8/u16/i16 values into every target.  Non-trivial = the cast "
        "changes the digit type, truncates set bits, or extends a negative source.")


def nontrivial(case, result):
    toks = case.split(" ")
    op, w, n = toks[0], int(toks[1]), int(toks[2])
    if op == "cast":
        w2, n2 = int(toks[3][2:], 16), int(toks[4][2:], 16)
        ss = toks[5] == "B:1"
        v = from_digits(parse_L(toks[7]), w)
        sb, tb = w * n, w2 * n2
        if w != w2:
            return True
        if tb < sb:
            return v >> tb != 0
        return ss and (v >> (sb - 1)) == 1 and tb > sb
    if op in ("to_prim", "to_size"):
        tb = 64 if op == "to_size" else int(toks[3][2:], 16)
        ss = toks[-2] == "B:1"
        v = from_digits(parse_L(toks[-1]), w)
        sb = w * n
        if tb < sb:
            return v >> (tb - 1) != 0
        return (v >> (sb - 1)) == 1
    if op in ("from_prim", "from_size"):
        b = 64 if op == "from_size" else int(toks[3][2:], 16)
        body = toks[-1][2:]
        v = -int(body[1:], 16) if body.startswith("-") else int(body, 16)
        return v < 0 or (v >> (w * n - 1)) != 0 or b > w
    if op == "from_char":
        return int(toks[-1][2:], 16) >> w != 0
    return True


def prebuild(root):
    """translator: regenerate coq/Generated/Loops.v from /repo/src (cast_up / cast_down are proved equal to the model in Proofs/LoopsTieC09.v)"""
    return run_translator(root, "rs2v_loops.py", "C09") or run_translator(root, "rs2v_conv.py", "C09") or run_translator(root, "rs2v_xcast.py", "C09")

"""C10 — parsing: from_str_radix / FromStr / parse_bytes / parse_str_radix / from_radix_be / from_radix_le.

Streams (all driven by the one seeded PRNG):
  grammar    sign? 0^k digits   for EVERY radix 2..36 (enumerated), values at 0, r^k (chunk boundaries of the
             general branch, digit boundaries of the 2/4/16 branch), MAX, MAX+1, MIN, MIN-1, beyond; k leading zeros
             from {0,1,2,power-1,power,power+1,capacity-len(+1),40,random<=40} (thorough: all 0..40)
  lengths    random digit strings of every length 0..2*capacity+3 (small configurations; sampled lengths on the others)
  malformed  a grammar string with one invalid character put at each position class (first, after the sign, last,
             every chunk / digit boundary +-1, end of the overflow-validation window, random), short (cannot
             overflow) and long; lone sign, double sign, '-' for unsigned, whitespace, non-ASCII, empty
  bytes      parse_bytes on all of the above plus invalid UTF-8 (lone continuation, overlong, surrogate, truncated,
             > U+10FFFF) and valid multi-byte characters
  slices     from_radix_be/le for EVERY radix 2..256 (enumerated): digits of boundary values, zero padding on either
             end, a digit = radix / > radix / 255 at each position class, empty slice
  range      radix 0, 1, 37 (str) / 257 (slices), 2^32-1
  thorough   adds exhaustive enumeration at (8,1): every value 0..2M+r with every sign and 0..2 leading zeros for
             every radix, all strings of length <= 3 over a 7-letter alphabet, all slices of length <= 3 over
             {0,1,r-1,r,255}; all leading-zero counts 0..40; all lengths on configurations up to 192 bits."""
from .common import *
import os
from .ops_c10 import OPS

PROP, BIN, RUNMOD, RUNFN = "C10", "c10", "RunC10", "run_C10"
MODES = [True, False]
EXTRA_TRUSTED = [
    "coq/Model/Parse.v utf8_valid: core::str::from_utf8(buf).is_ok() is MODELLED as the well-formed byte sequences of "
    "Unicode table 3-7 (exercised by the harness on ASCII, valid multi-byte and 17 invalid patterns + random bytes)",
    "coq/Model/Parse.v from_le_slice/from_be_slice: minimal LOCAL model of BUint::from_le_slice/from_be_slice used only for "
    "radix 256 in from_radix_be/le (the faithful model of src/buint/endian.rs is property C15's); exercised by the harness",
    "coq/Model/Parse.v d_mul/d_add/d_checked_mul: primitive digit `*`, `+`, checked_mul (overflow panics iff overflow checks are on)",
    "the `0 =>` arm of from_buf_radix_internal (disabled 8|32|64|128 branch) is dead code (every caller asserts radix >= 2) and is not modelled",
]
ASSUMPTIONS = [
    "theorems hold for digit widths w > 0 with w mod 8 = 0 and digit counts n >= 1",
    "the facts about other models the C10 proofs use (coq/Proofs/ParseDeps.v: overflowing_add, bit, trailing_zeros, wrapping_neg, "
    "is_negative) were developed as explicit premises and are discharged by the proved theorems in coq/Proofs/DischargeParse.v; "
    "every theorem of coq/Properties/C10.v is premise-free",
]

DIG = "0123456789abcdefghijklmnopqrstuvwxyz"


def to_radix(v, r):
    """digits of v >= 0 in radix r, most significant first ([0] for 0)"""
    if v == 0:
        return [0]
    ds = []
    while v:
        ds.append(v % r)
        v //= r
    return ds[::-1]


def chars(rng, ds):
    out = []
    for d in ds:
        c = DIG[d]
        if d >= 10 and rng.chance(1, 2):
            c = c.upper()
        out.append(ord(c))
    return out


def radix_power(w, r):
    """(base, power) of BUint::radix_base for digit width w"""
    base, p = r, 1
    while base * r < (1 << w):
        base *= r
        p += 1
    return base, p


def capacity(M, r):
    return len(to_radix(M - 1, r))


def line(op, w, n, bs, r=None):
    if r is None:
        return "%s %d %d %s" % (op, w, n, tokL(bs))
    return "%s %d %d %s %s" % (op, w, n, tokL(bs), tokZ(r))


def values_unsigned(rng, w, n, r):
    M = 1 << (w * n)
    _, p = radix_power(w, r)
    cap = capacity(M, r)
    vs = [0, 1, r - 1, r, M - 1, M, M + 1, M - 2, (M >> 1), (M >> 1) - 1, 2 * M - 1, M * r, M * r - 1]
    for k in (p - 1, p, p + 1, 2 * p, 2 * p + 1, cap - 1, cap, cap + 1):
        if k >= 0:
            vs += [r ** k, r ** k - 1, r ** k + 1]
    # digit boundaries of the power-of-two branch
    for k in range(1, n + 1):
        vs += [(1 << (w * k)) - 1, 1 << (w * k)]
    vs += [rng.bits(w * n), rng.bits(w * n) | (1 << (w * n - 1)), rng.bits(rng.below(w * n) + 1),
           M + rng.bits(rng.below(w * n) + 1), rng.bits(w * n + 8)]
    return [v for v in vs if v >= 0]


def values_signed(rng, w, n, r):
    M = 1 << (w * n)
    H = M >> 1
    vs = [0, 1, -1, H - 1, H, H + 1, -H, -H - 1, -H + 1, M - 1, M, -M, -(M - 1), -(M + 1), r, -r, H - 2, -H + 2]
    _, p = radix_power(w, r)
    for k in (p, p + 1, 2 * p):
        vs += [r ** k, -(r ** k), r ** k - 1]
    x = rng.bits(w * n - 1)
    vs += [x, -x, rng.bits(w * n), -rng.bits(w * n), rng.bits(rng.below(w * n) + 1), -rng.bits(rng.below(w * n) + 1)]
    return vs


def zeros_choices(rng, w, n, r, ndig):
    M = 1 << (w * n)
    _, p = radix_power(w, r)
    cap = capacity(M, r)
    return [0, 1, 2, max(0, p - 1), p, p + 1, max(0, cap - ndig), max(0, cap - ndig + 1), 40, rng.below(41)]


def grammar_string(rng, v, r, sign, zeros):
    """sign: '' | '+' | '-' ; v >= 0 magnitude"""
    return [ord(c) for c in sign] + [48] * zeros + chars(rng, to_radix(v, r))


def grammar_cases(rng, w, n, r, signed, count, all_zeros=False):
    """list of byte strings"""
    out = []
    vs = values_signed(rng, w, n, r) if signed else values_unsigned(rng, w, n, r)
    picks = vs if count is None else [rng.choice(vs) for _ in range(count)]
    for v in picks:
        if v < 0:
            sign = "-"
        else:
            sign = rng.choice(["", "", "+"]) if not (signed and v == 0 and rng.chance(1, 3)) else "-"
        nd = len(to_radix(abs(v), r))
        zs = range(41) if all_zeros else [rng.choice(zeros_choices(rng, w, n, r, nd))]
        for z in zs:
            out.append(grammar_string(rng, abs(v), r, sign, z))
    return out


def random_digits(rng, r, length, lead_nonzero=False):
    ds = [rng.below(r) for _ in range(length)]
    k = rng.below(6)
    if k == 0:
        ds = [r - 1] * length
    elif k == 1:
        ds = [0] * length
    elif k == 2 and length:
        ds = [0] * (length - 1) + [rng.below(r)]
    if lead_nonzero and ds and ds[0] == 0:
        ds[0] = 1
    return ds


def length_cases(rng, w, n, r, signed, lengths):
    out = []
    for L in lengths:
        ds = random_digits(rng, r, L)
        sign = rng.choice(["", "", "+", "-"] if signed else ["", "", "+"])
        out.append([ord(c) for c in sign] + chars(rng, ds))
    return out


def sample_lengths(rng, w, n, r):
    M = 1 << (w * n)
    cap = capacity(M, r)
    _, p = radix_power(w, r)
    ls = {0, 1, 2, p - 1, p, p + 1, 2 * p, cap - 1, cap, cap + 1, cap + p, 2 * cap, 2 * cap + 3, rng.below(2 * cap + 4)}
    return sorted(x for x in ls if x >= 0)


# invalid characters: neighbours of the three ASCII digit ranges, signs, white space, punctuation, NUL, DEL
BAD_ASCII = [32, 9, 10, 13, 43, 45, 95, 46, 44, 47, 58, 64, 91, 96, 123, 0, 127, 120]
# valid UTF-8 non-ASCII: e-acute, ARABIC-INDIC DIGIT THREE, FULLWIDTH DIGIT ONE, MATHEMATICAL BOLD DIGIT ONE, NBSP
NON_ASCII = [[0xC3, 0xA9], [0xD9, 0xA3], [0xEF, 0xBC, 0x91], [0xF0, 0x9D, 0x9F, 0x8F], [0xC2, 0xA0]]
INVALID_UTF8 = [[0x80], [0xBF], [0xC0, 0x80], [0xC1, 0xBF], [0xE0, 0x80, 0x80], [0xE0, 0x9F, 0xBF], [0xED, 0xA0, 0x80],
                [0xF0, 0x80, 0x80, 0x80], [0xF4, 0x90, 0x80, 0x80], [0xF5, 0x80, 0x80, 0x80], [0xFF], [0xFE],
                [0xE2, 0x82], [0xC3], [0xF0, 0x9D, 0x9F], [0xC3, 0x28], [0xE2, 0x28, 0xA1]]


def bad_chars(rng, r):
    """single-character (as byte lists) invalid digits for radix r"""
    out = [[c] for c in BAD_ASCII if not (c == 120 and r > 33)]
    if r < 36:
        out.append([ord(DIG[r])])             # the first digit that is out of range
        out.append([ord(DIG[r].upper())])
        out.append([ord(DIG[35])])
        out.append([ord("Z")])
    return out


def positions(rng, w, n, r, L, signlen):
    """interesting positions 0..L (insertion points) in a string of L characters whose first `signlen` are the sign"""
    _, p = radix_power(w, r)
    ps = {0, signlen, L, max(0, L - 1), rng.below(L + 1)}
    for k in (1, 2, 3):
        for d in (-1, 0, 1):
            ps.add(L - k * p + d)           # chunk boundaries of the general branch (counted from the end)
            ps.add(signlen + k * p + d)
    if r in (2, 4, 16):
        bd = w // {2: 1, 4: 2, 16: 4}[r]
        for d in (-1, 0, 1):
            ps.add(L - bd + d)              # digit boundary of the packing loops
            ps.add(signlen + n * bd + d)    # end of the window validated before PosOverflow is reported
            ps.add(L - n * bd + d)
    return sorted(x for x in ps if 0 <= x <= L)


def malformed_cases(rng, w, n, r, signed, count):
    M = 1 << (w * n)
    cap = capacity(M, r)
    out = []
    for _ in range(count):
        kind = rng.below(4)
        if kind == 0:
            L = rng.below(max(1, cap))                      # short: the digits cannot overflow
        elif kind == 1:
            L = cap + rng.below(3) - 1
        elif kind == 2:
            L = cap + 1 + rng.below(cap + 3)
        else:
            L = rng.below(2 * cap + 4)
        sign = rng.choice(["", "", "+", "-"] if signed else ["", "", "+", "-"])
        body = chars(rng, random_digits(rng, r, L, lead_nonzero=rng.chance(1, 2)))
        if rng.chance(1, 4):
            body = [48] * rng.below(cap + 3) + body
        s = [ord(c) for c in sign] + body
        pos = rng.choice(positions(rng, w, n, r, len(s), len(sign)))
        bad = rng.choice(bad_chars(rng, r) + ([x for x in NON_ASCII] if rng.chance(1, 3) else []))
        if rng.chance(1, 2) and pos < len(s):
            s2 = s[:pos] + bad + s[pos + 1:]                 # replace
        else:
            s2 = s[:pos] + bad + s[pos:]                     # insert
        out.append(s2)
    return out


FIXED = ["", "+", "-", "++1", "+-1", "-+1", "--1", " 1", "1 ", " ", "+ 1", "- 1", "1+", "1-", "0x1f", "1_0", "1.0", "\t1",
         "1\n", "\0", "+0", "-0", "0", "00", "+00", "-00", "0" * 50, "+" + "0" * 50, "-" + "0" * 50, "0" * 50 + "1",
         "-" + "0" * 50 + "1", "+" + "0" * 41 + "10", "1", "-1", "+1", "10", "-10", "z", "Z", "-z", "+Z", "١", "１", "é", "1é",
         "é1", "-é", "+", "0+", "0-", "+-", "-+", "1e5", "1,000", "０", "1 "]


def fixed_cases():
    return [list(s.encode("utf-8")) for s in FIXED]


def utf8_cases(rng, w, n, r, count):
    """byte buffers for parse_bytes: digits with an invalid / valid multi-byte sequence somewhere"""
    M = 1 << (w * n)
    cap = capacity(M, r)
    out = []
    for _ in range(count):
        L = rng.below(2 * cap + 3)
        s = chars(rng, random_digits(rng, r, L))
        if rng.chance(1, 3):
            s = [rng.choice([43, 45])] + s
        seq = rng.choice(INVALID_UTF8 + NON_ASCII) if rng.chance(5, 6) else [rng.below(256) for _ in range(rng.below(4) + 1)]
        pos = rng.choice([0, len(s), rng.below(len(s) + 1)])
        out.append(s[:pos] + seq + s[pos:])
    return out


BAD_RADIX_STR = [0, 1, 37, 38, 64, 255, 256, 257, (1 << 32) - 1]
BAD_RADIX_SLICE = [0, 1, 257, 258, 300, 512, 1 << 16, (1 << 32) - 1]


def slice_cases(rng, w, n, r, count, be):
    """digit slices (bytes) for from_radix_be/le, in the order the function expects"""
    M = 1 << (w * n)
    out = []
    rr = min(r, 256)
    cap = capacity(M, rr) if rr >= 2 else 8
    _, p = radix_power(w, rr) if 2 <= rr < (1 << w) else (0, 1)
    for _ in range(count):
        k = rng.below(12)
        if k < 5:
            vs = [0, 1, rr - 1, rr, M - 1, M, M + 1, M >> 1, rr ** p, rr ** p - 1, rr ** (p + 1), rr ** (2 * p), rr ** max(0, cap - 1),
                  rr ** cap, rng.bits(w * n), rng.bits(w * n + 4), M + rng.bits(rng.below(w * n) + 1), rng.bits(rng.below(w * n) + 1),
                  M * rr, 2 * M - 1]
            ds = to_radix(rng.choice(vs), rr)
        elif k < 7:
            ds = random_digits(rng, rr, rng.below(2 * cap + 4))
        elif k == 7:
            ds = []
        else:
            # one bad digit (= radix, > radix, 255) at a position class
            L = rng.choice([rng.below(cap) + 1, cap, cap + 1, cap + 1 + rng.below(cap + 3)])
            ds = random_digits(rng, rr, L, lead_nonzero=rng.chance(1, 2))
            bads = [d for d in (rr, rr + 1, 255, rng.below(256)) if rr <= d <= 255]
            if bads:
                pos = rng.choice(positions(rng, w, n, rr, L, 0)) if L else 0
                pos = min(pos, L - 1)
                if rng.chance(1, 2):
                    pos = L - 1 - pos
                ds[pos] = rng.choice(bads)
        # zero padding: most significant end (does not change the value) and sometimes the least significant end
        z = rng.choice([0, 0, 1, 2, p, cap, cap + 2, rng.below(41)])
        ds = [0] * z + ds
        if rng.chance(1, 6):
            ds = ds + [0] * rng.below(p + 2)
        out.append(ds if be else ds[::-1])
    return out


SWEEP = True      # thorough tier: the binary is built with the cargo feature `sweep` (tools/ops/C10.ops: @sweep)
DIGS = b"0123456789abcdefghijklmnopqrstuvwxyz"


def numeral(v, r):
    """canonical numeral of v >= 0 in radix r (bytes)"""
    if v == 0:
        return [48]
    if r == 10:
        return list(str(v).encode())
    if r == 16:
        return list(("%x" % v).encode())
    out = []
    while v:
        v, d = divmod(v, r)
        out.append(DIGS[d])
    return out[::-1]


def sweep_cases(rng):
    """EVERY width 8, 16, ..., 8192 bits (u8 digits, N = 1..=1024): the strings at the representability boundary, where a
    width-dependent shortcut (digit-count estimate, fast accept / reject) would go wrong: MAX, MAX+1, the smallest and the
    largest numeral of maximal length, one digit shorter all-(r-1), leading zeros; signed MAX, MAX+1, MIN, MIN-1.
    Radix 10 at every width plus one other non-power-of-two radix (rotating) and one power of two."""
    out = []
    others = [3, 5, 6, 7, 9, 11, 12, 13, 14, 15, 17, 19, 20, 21, 23, 24, 26, 29, 30, 31, 33, 35, 36]
    from .common import CONFIGS_ALL
    std = {n for (w, n) in CONFIGS_ALL if w == 8}
    for n in range(1, 1025):
        if n in std:
            continue
        bits = 8 * n
        M = 1 << bits
        H = M >> 1
        # the model is quadratic in the width: full set up to 3200 bits, radix 10 and the three sharpest strings above
        full = n <= 400
        for r in ((10, others[n % len(others)], (2, 4, 8, 16, 32)[n % 5]) if full else (10,)):
            mx = numeral(M - 1, r)
            L = len(mx)
            top = r ** (L - 1)
            strs = [mx, numeral(M, r), [DIGS[r - 1]] * L]
            if full:
                strs += [numeral(top, r), [DIGS[r - 1]] * (L - 1) if L > 1 else [48], [48, 48] + mx,
                         numeral(M - 1 - rng.below(1 << min(bits, 40)), r), numeral(top + rng.below(top), r)]
            for s_ in strs:
                out.append(line("U.from_str_radix", 8, n, s_, r))
            if full and (r == 10 or n % 7 == 0):
                out.append(line("U.from_radix_be", 8, n, [DIGS.index(c) for c in mx], r))
                out.append(line("U.from_radix_be", 8, n, [DIGS.index(c) for c in numeral(M, r)], r))
            sg = [numeral(H, r), [45] + numeral(H, r)]
            if full:
                sg += [numeral(H - 1, r), [45] + numeral(H + 1, r), [43] + numeral(H - 1, r)]
            for s_ in sg:
                out.append(line("I.from_str_radix", 8, n, s_, r))
    return out


def gen(rng, tier):
    thorough = tier == "thorough"
    configs = CONFIGS_ALL if thorough else CONFIGS_QUICK
    out = []
    fixed = fixed_cases()
    if thorough:
        out += sweep_cases(rng)
        if os.environ.get("VERIF_ONLY_SWEEP") == "1":       # development knob: the width sweep alone
            return out
    for (w, n) in configs:
        bits = w * n
        big = bits > 1100
        for r in range(2, 37):
            for signed in (False, True):
                T = "I" if signed else "U"
                op = T + ".from_str_radix"
                # grammar stream
                cnt = (2 if big else (None if bits <= 64 else 16)) if thorough else (2 if bits > 640 else 6)
                for s in grammar_cases(rng, w, n, r, signed, cnt):
                    out.append(line(op, w, n, s, r))
                # lengths
                if thorough and bits <= 192:
                    lens = range(0, 2 * capacity(1 << bits, r) + 4)
                elif big:
                    lens = [rng.choice(sample_lengths(rng, w, n, r))]
                else:
                    sl = sample_lengths(rng, w, n, r)
                    lens = sl if (thorough or bits <= 64) else [rng.choice(sl) for _ in range(3)]
                for s in length_cases(rng, w, n, r, signed, lens):
                    out.append(line(op, w, n, s, r))
                # malformed
                for s in malformed_cases(rng, w, n, r, signed, (2 if big else 20) if thorough else (1 if bits > 640 else 5)):
                    out.append(line(op, w, n, s, r))
                    if rng.chance(1, 4):
                        out.append(line(T + ".parse_bytes", w, n, s, r))
                # parse_bytes / parse_str_radix on a sample of well-formed strings, parse_bytes with (in)valid UTF-8
                for s in grammar_cases(rng, w, n, r, signed, 1):
                    out.append(line(T + ".parse_bytes", w, n, s, r))
                    out.append(line(T + ".parse_str_radix", w, n, s, r))
                for s in utf8_cases(rng, w, n, r, (4 if thorough else 1) if not big else 1):
                    out.append(line(T + ".parse_bytes", w, n, s, r))
        # all leading-zero counts 0..40 (thorough: every radix on configurations up to 192 bits)
        if thorough and bits <= 192:
            for r in range(2, 37):
                for signed in (False, True):
                    for s in grammar_cases(rng, w, n, r, signed, 3, all_zeros=True):
                        out.append(line(("I" if signed else "U") + ".from_str_radix", w, n, s, r))
        elif not big:
            r = 2 + rng.below(35)
            for signed in (False, True):
                for s in grammar_cases(rng, w, n, r, signed, 1, all_zeros=True):
                    out.append(line(("I" if signed else "U") + ".from_str_radix", w, n, s, r))
        # fixed strings: every radix class, both types, all string entry points
        for r in (2, 3, 4, 8, 10, 16, 32, 35, 36):
            for s in fixed:
                for T in ("U", "I"):
                    out.append(line(T + ".from_str_radix", w, n, s, r))
                    out.append(line(T + ".parse_bytes", w, n, s, r))
                    if r == 10:
                        out.append(line(T + ".from_str", w, n, s))
                    if r in (10, 16):
                        out.append(line(T + ".parse_str_radix", w, n, s, r))
        # FromStr = radix 10
        for signed in (False, True):
            T = "I" if signed else "U"
            k = 3 if big else (60 if thorough else 12)
            for s in grammar_cases(rng, w, n, 10, signed, k) + malformed_cases(rng, w, n, 10, signed, k) + \
                    length_cases(rng, w, n, 10, signed, sample_lengths(rng, w, n, 10)):
                out.append(line(T + ".from_str", w, n, s))
        # out-of-range radix
        for r in BAD_RADIX_STR:
            for s in (fixed[0], [49], [43, 49], [45], [0xFF], [48] * 3, [32]):
                for T in ("U", "I"):
                    if s != [0xFF]:
                        out.append(line(T + ".from_str_radix", w, n, s, r))
                        out.append(line(T + ".parse_str_radix", w, n, s, r))
                    out.append(line(T + ".parse_bytes", w, n, s, r))
        # digit slices: every radix 2..256
        for r in range(2, 257):
            for be in (True, False):
                nm = "from_radix_be" if be else "from_radix_le"
                k = (1 if big else 10) if thorough else (1 if bits > 640 else 3)
                for ds in slice_cases(rng, w, n, r, k, be):
                    out.append(line("U." + nm, w, n, ds, r))
                    if rng.chance(1, 5):
                        out.append(line("I." + nm, w, n, ds, r))
        for r in BAD_RADIX_SLICE:
            for ds in ([], [0], [1, 1], [255]):
                for nm in ("from_radix_be", "from_radix_le"):
                    out.append(line("U." + nm, w, n, ds, r))
                    out.append(line("I." + nm, w, n, ds, r))
    if thorough:
        out += exhaustive_small(rng)
    # the driver splits the case list into contiguous shards; the cost of a case grows with the square of its
    # length (index-based model), so deal the cases round-robin to spread the long ones over all shards
    K = 16
    return [out[j] for i in range(K) for j in range(i, len(out), K)]


def exhaustive_small(rng):
    out = []
    w, n = 8, 1
    M = 256
    for r in range(2, 37):
        # every value 0..2M+r, every sign, 0..2 leading zeros
        for v in range(0, 2 * M + r + 1):
            ds = [ord(DIG[d]) for d in to_radix(v, r)]
            for z in range(3):
                for sign in ("", "+", "-"):
                    s = [ord(c) for c in sign] + [48] * z + ds
                    out.append(line("I.from_str_radix", w, n, s, r))
                    if sign != "-" or v < 4:
                        out.append(line("U.from_str_radix", w, n, s, r))
        # all strings of length <= 3 over a 7-letter alphabet
        alpha = [43, 45, 48, 49, ord(DIG[r - 1]), ord(DIG[r]) if r < 36 else 64, 32]
        strs = [[]]
        layer = [[]]
        for _ in range(3):
            layer = [s + [c] for s in layer for c in alpha]
            strs += layer
        for s in strs:
            out.append(line("U.from_str_radix", w, n, s, r))
            out.append(line("I.from_str_radix", w, n, s, r))
    for (w, n) in ((8, 1), (8, 2), (16, 1)):
        M = 1 << (w * n)
        for r in range(2, 257):
            alpha = sorted({0, 1, r - 1, min(r, 255), 255})
            strs = [[]] + [[a] for a in alpha] + [[a, b] for a in alpha for b in alpha] + \
                   [[a, b, c] for a in alpha for b in alpha for c in alpha]
            for s in strs:
                out.append(line("U.from_radix_be", w, n, s, r))
                out.append(line("U.from_radix_le", w, n, s, r))
    for r in (2, 3, 4, 7, 10, 16, 100, 255, 256):
        for v in range(0, 2 * 256 + r + 1):
            ds = to_radix(v, r)
            for z in (0, 1, 9):
                out.append(line("U.from_radix_be", 8, 1, [0] * z + ds, r))
                out.append(line("U.from_radix_le", 8, 1, ds[::-1] + [0] * z, r))
    return out


def exhaustive(tier):
    return tier == "thorough"


RULE = ("grammar strings sign? 0^k digits for every radix 2..36 (enumerated) with values 0, r^k at the chunk boundaries "
        "of the general branch and the digit boundaries of the 2/4/16 branch, MAX, MAX+1, MIN, MIN-1, beyond, and k leading "
        "zeros from {0,1,2,power-1,power,power+1,capacity-len,40,random} (thorough: every k in 0..40 on configurations up "
        "to 192 bits); random digit strings of every length 0..2*capacity+3; malformed strings with one invalid character "
        "(neighbours of the ASCII digit ranges, signs, white space, first out-of-range digit, non-ASCII) at first / after "
        "sign / last / chunk-boundary / validation-window positions, short and over-long; fixed corner strings (empty, lone "
        "and double signs, '-' for unsigned, white space); parse_bytes additionally with invalid UTF-8; digit slices for "
        "every radix 2..256 (enumerated) with boundary values, zero padding at either end and a digit = radix / > radix / "
        "255 at each position class; out-of-range radices for every entry point.  Thorough adds exhaustive 8-bit "
        "enumeration (all values 0..2M+r x signs x 0..2 zeros for every radix; all strings of length <= 3 over 7 letters; "
        "all slices of length <= 3 over {0,1,r-1,r,255} for every radix 2..256).  Non-trivial = input of at least two "
        "bytes, or an Err / None / Panic result.")


def nontrivial(case, result):
    toks = case.split(" ")
    return len(parse_L(toks[3])) >= 2 or result.startswith("Err") or result in ("None", "Panic")


def _is_grammar(bs, r, signed):
    i = 0
    if bs and (bs[0] == 43 or (signed and bs[0] == 45)):
        i = 1
    if i >= len(bs):
        return False
    for b in bs[i:]:
        c = chr(b).lower() if b < 128 else "~"
        if c not in DIG[:r]:
            return False
    return True


def observable(case, impl, model, dbg):
    """The property fixes the error KIND of a rejected string only when the string is too short for its digits to
    overflow ("rejected with InvalidDigit whenever it is too short for its digits to overflow the type"); for a malformed
    over-long string it only requires rejection.  So when implementation and model both reject such a string but with
    different kinds, that difference is not constrained by C10 (reported as drift).  Everything else is observable.
    (The model transcribes the code's validation order, so this is not expected to fire at all.)"""
    toks = case.split(" ")
    op = toks[0]
    if op.split(".")[1] not in ("from_str_radix", "from_str"):
        return True
    if not (impl.startswith("Err:") and model.startswith("Err:")):
        return True
    if impl == "Err:0" or model == "Err:0":
        return True
    w, n = int(toks[1]), int(toks[2])
    bs = parse_L(toks[3])
    r = int(toks[4][2:], 16) if len(toks) > 4 else 10
    if not (2 <= r <= 36):
        return True
    signed = op.startswith("I.")
    if _is_grammar(bs, r, signed):
        return True
    ndig = len(bs) - (1 if bs and (bs[0] == 43 or (signed and bs[0] == 45)) else 0)
    return not (r ** ndig > (1 << (w * n)))


IMPL_ONLY = {"U.huge_from_str_radix", "I.huge_from_str_radix"}


def sequential_cases(tier):
    """thorough tier only, implementation only, one process at a time (each input is 1-4 GiB): strings whose LENGTH does
    not fit a u32.  Expected results follow from the property text alone: leading zeros never change the result; a run of
    non-zero digits far longer than the type's capacity is PosOverflow.  Skipped when less than 12 GiB of memory is free."""
    if tier != "thorough":
        return []
    try:
        avail = [int(l.split()[1]) for l in open("/proc/meminfo") if l.startswith("MemAvailable")][0] // (1 << 20)
    except Exception:
        avail = 0
    if avail < 12:
        return []
    t = "L:" + ",".join("%x" % c for c in b"123451234")
    out = []
    # 2^32 + 3 leading zeros, radix 10 / 6 / 36 (general branch) and 16 (power-of-two branch, zeros are stripped)
    out.append(("U.huge_from_str_radix 64 3 Z:20 Z:30 %s Z:a" % t, "L:75bb762,0,0", "2^32+3 leading zeros + 123451234, radix 10"))
    out.append(("U.huge_from_str_radix 32 2 Z:20 Z:30 %s Z:a" % t, "L:75bb762,0", "2^32+3 leading zeros + 123451234, radix 10, u32 digits"))
    out.append(("U.huge_from_str_radix 8 5 Z:20 Z:30 %s Z:6" % t, "L:c6,e2,24,0,0", "2^32+3 leading zeros, radix 6, u8 digits"))
    out.append(("U.huge_from_str_radix 64 2 Z:20 Z:30 %s Z:10" % t, "L:123451234,0", "2^32+3 leading zeros, radix 16"))
    # over-long runs of non-zero digits in the power-of-two radices: PosOverflow, never a panic
    out.append(("U.huge_from_str_radix 64 2 Z:1e Z:31 L:31 Z:10", "Err:2", "2^30+4 hex digits"))
    out.append(("I.huge_from_str_radix 16 3 Z:1f Z:31 L:31 Z:4", "Err:2", "2^31+4 base-4 digits"))
    out.append(("U.huge_from_str_radix 8 1 Z:20 Z:31 L:31 Z:2", "Err:2", "2^32+4 binary digits"))
    return out


def prebuild(root):
    """translator: regenerate coq/Generated/ParseGen.v from /repo/src/buint/radix.rs, /repo/src/bint/radix.rs, /repo/src/bint/convert.rs
    (the parsing code; proved equal to the hand-written model Model/Parse.v in Proofs/ParseGenTie*.v,
    theorem C10_parse_rs_matches_model); the translator error is returned"""
    return run_translator(root, "rs2v_parse.py", "C10")

"""C13 — checked conversions: TryFrom<bnum> for the 12 primitive integers, From / TryFrom of primitive integers,
bool, char into bnum, BTryFrom between bnum integers (all digit types, widths, signedness), digit-array accessors.
Protocol: coq/Run/RunC13.v; Rust side harness/src/bin/c13.rs."""
from .common import *
from .c09 import CFG, PRIMS, pbits, structured_sources, random_source, prim_values, random_prim, CHARS

PROP, BIN, RUNMOD, RUNFN = "C13", "c13", "RunC13", "run_C13"
MODES = [True, False]


def btry_line(w, n, w2, n2, ss, dsg, v):
    return "btry_from %d %d %s %s %s %s %s" % (w, n, tokZ(w2), tokZ(n2), tokB(ss), tokB(dsg), tokV(v, w, n))


def to_prim_line(w, n, b, ps, ss, v):
    if b == 0:
        return "try_to_size %d %d %s %s %s" % (w, n, tokB(ps), tokB(ss), tokV(v, w, n))
    return "try_to_prim %d %d %s %s %s %s" % (w, n, tokZ(b), tokB(ps), tokB(ss), tokV(v, w, n))


def conv_line(w, n, b, ps, dsg, v):
    if b == 0:
        return "conv_size %d %d %s %s %s" % (w, n, tokB(ps), tokB(dsg), tokZ(v))
    return "conv_prim %d %d %s %s %s %s" % (w, n, tokZ(b), tokB(ps), tokB(dsg), tokZ(v))


def rep_boundaries(sb, tb):
    """bit patterns (mod 2^sb) of the representability boundaries of a tb-bit target, unsigned and signed, seen
    from an sb-bit source of either signedness: MAX, MAX+1, MIN, MIN-1 (+-1 around each), 0, -1, source MIN/MAX"""
    M = 1 << sb
    vs = {0, 1, M - 1, M - 2, M >> 1, (M >> 1) - 1, (M >> 1) + 1}
    for k in (tb, tb - 1):
        for d in (-2, -1, 0, 1):
            vs.add(((1 << k) + d) % M)        # unsigned MAX / signed MAX and neighbours
            vs.add((-(1 << k) + d) % M)       # signed MIN and neighbours (and -2^tb)
    return sorted(vs)


def digit_pokes(w, n, tb):
    """the value fits the low digits but ONE higher digit differs from the padding digit (0 / MAX), or the sign digit
    disagrees with the padding: sign digit versus padding digit"""
    M = 1 << (w * n)
    mx = (1 << w) - 1
    vs = set()
    k0 = min(n, max(1, (tb + w - 1) // w))     # digits the target covers
    lows = [0, 1, mx >> 1, (mx >> 1) + 1, mx]
    for neg in (False, True):
        pad = mx if neg else 0
        for lo in lows:
            base = [lo] * k0 + [pad] * (n - k0)
            bv = from_digits(base[:n], w)
            vs.add(bv)
            # every padding position when there are few; for very wide sources the first / last ones, the positions
            # around 255/256 (a u8 counter), 511/512, 1023/1024 and an evenly spaced sample
            if n - k0 <= 48:
                pos = range(k0, n)
            else:
                pos = sorted({i for i in list(range(k0, k0 + 4)) + list(range(n - 4, n)) + [254, 255, 256, 257, 258, 511, 512, 513, 1023, 1024]
                              + list(range(k0, n, max(1, (n - k0) // 12))) if k0 <= i < n})
            for i in pos:
                for alt in (pad ^ 1, pad ^ (1 << (w - 1)), pad ^ mx):
                    vs.add(bv ^ ((pad ^ alt) << (w * i)))
            # padding everywhere, top bit of the last covered digit set / clear
            for top in (0, 1 << (w - 1), (1 << (w - 1)) - 1, mx):
                ds = list(base[:n])
                ds[k0 - 1] = top
                vs.add(from_digits(ds, w))
    return sorted(v % M for v in vs)


def wide_digit_sources(w, n, pb):
    """`Digit::BITS > int::BITS` branch: low digit with bit pb-1 / bits >= pb set / a sign extension of a pb-bit
    negative, the other digits zero / MAX / mixed"""
    if pb >= w:
        return []
    mx = (1 << w) - 1
    d0s = [0, 1, (1 << (pb - 1)) - 1, 1 << (pb - 1), (1 << pb) - 1, 1 << pb, (1 << pb) + 1, mx, mx - (1 << (pb - 1)) + 1,
           mx - (1 << (pb - 1)), mx - (1 << pb) + 1, mx - (1 << pb), mx >> 1, (mx >> 1) + 1, (1 << (pb - 1)) | (1 << pb)]
    vs = set()
    for d0 in d0s:
        for rest in ([0] * (n - 1), [mx] * (n - 1), [0] * (n - 2) + [1] if n > 1 else None,
                     [mx] * (n - 2) + [mx - 1] if n > 1 else None, [mx] * (n - 2) + [mx >> 1] if n > 1 else None):
            if rest is None:
                continue
            vs.add(from_digits([d0] + list(rest), w))
    return sorted(vs)


def conv_values(b, ps, w, n):
    """primitive values at the representability boundaries of the (w, n) targets (both signednesses)"""
    bits = pbits(b)
    T = w * n
    lo, hi = (-(1 << (bits - 1)), (1 << (bits - 1)) - 1) if ps else (0, (1 << bits) - 1)
    vs = {lo, hi, 0, 1, lo + 1, hi - 1}
    if ps:
        vs |= {-1, -2}
    for k in (T, T - 1, w, w - 1):
        for d in (-1, 0, 1):
            vs |= {(1 << k) + d, -(1 << k) + d}
    return sorted(v for v in vs if lo <= v <= hi)


def gen(rng, tier):
    thorough = tier == "thorough"
    out = []
    per_s, per_r = (30, 30) if thorough else (8, 8)
    # ---- bnum -> bnum: all ordered pairs of the grid x source signedness x target signedness
    for (w, n) in CFG:
        for (w2, n2) in CFG:
            tb = w2 * n2
            st = structured_sources(w, n, tb, {w, w2})
            always = rep_boundaries(w * n, tb)
            pokes = digit_pokes(w, n, tb)
            for ss in (False, True):
                for dsg in (False, True):
                    vs = list(always) + [rng.choice(st) for _ in range(per_s)] + \
                         [rng.choice(pokes) for _ in range(per_s)] + [random_source(rng, w, n, tb) for _ in range(per_r)]
                    for v in vs:
                        out.append(btry_line(w, n, w2, n2, ss, dsg, v))
    # ---- bnum -> primitive
    for (w, n) in CFG:
        for (b, ps) in PRIMS:
            tb = pbits(b)
            st = structured_sources(w, n, tb, {w})
            always = rep_boundaries(w * n, tb) + wide_digit_sources(w, n, tb)
            pokes = digit_pokes(w, n, tb)
            for ss in (False, True):
                vs = list(always) + [rng.choice(st) for _ in range(per_s)] + \
                     [rng.choice(pokes) for _ in range(2 * per_s)] + [random_source(rng, w, n, tb) for _ in range(per_r)]
                for v in vs:
                    out.append(to_prim_line(w, n, b, ps, ss, v))
    # ---- primitive -> bnum
    for (w, n) in CFG:
        for (b, ps) in PRIMS:
            pv = prim_values(b, ps)
            always = conv_values(b, ps, w, n)
            for dsg in (False, True):
                vs = list(always) + [rng.choice(pv) for _ in range(per_s)] + [random_prim(rng, b, ps) for _ in range(per_r)]
                for v in vs:
                    out.append(conv_line(w, n, b, ps, dsg, v))
    # ---- bool, char, digit arrays
    for (w, n) in CFG:
        for dsg in (False, True):
            for bv in (False, True):
                out.append("from_bool %d %d %s %s" % (w, n, tokB(dsg), tokB(bv)))
        cs = CHARS + [(1 << (w * n)) - 1, 1 << (w * n), (1 << (w * n)) + 1] + [rng.below(0xd800) for _ in range(4)] + \
             [0xe000 + rng.below(0x110000 - 0xe000) for _ in range(4)]
        for c in cs:
            if 0 <= c < 0x110000 and not (0xd800 <= c < 0xe000):
                out.append("from_char %d %d %s" % (w, n, tokZ(c)))
        bv = boundary_values(w, n)
        for op in ("from_digits", "from_array", "into_array", "digits"):
            for v in [rng.choice(bv) for _ in range(4)] + [gen_value(rng, w, n) for _ in range(per_r)]:
                out.append("%s %d %d %s" % (op, w, n, tokV(v, w, n)))
            out.append("%s %d %d %s" % (op, w, n, tokL([(i % ((1 << w) - 1)) + 1 for i in range(n)])))      # distinct digits: order visible
        for d in special_digits(w) + [gen_digit(rng, w) for _ in range(per_r)]:
            out.append("from_digit %d %d %s" % (w, n, tokZ(d)))
    if thorough:
        # ---- every 16-bit source, both signednesses, into every bnum target (both signednesses) and every primitive
        for (w, n) in ((8, 2), (16, 1)):
            for v in range(1 << 16):
                tv = tokV(v, w, n)
                for (w2, n2) in CFG:
                    for ss in (False, True):
                        for dsg in (False, True):
                            out.append("btry_from %d %d %s %s %s %s %s" % (w, n, tokZ(w2), tokZ(n2), tokB(ss), tokB(dsg), tv))
                for (b, ps) in PRIMS:
                    for ss in (False, True):
                        out.append(to_prim_line(w, n, b, ps, ss, v))
        # ---- every u8 / i8 / u16 / i16 value into every target
        for (w, n) in CFG:
            for dsg in (False, True):
                for v in range(256):
                    out.append(conv_line(w, n, 8, False, dsg, v))
                    out.append(conv_line(w, n, 8, True, dsg, v - 128))
                for v in range(0, 1 << 16):
                    out.append(conv_line(w, n, 16, False, dsg, v))
                    out.append(conv_line(w, n, 16, True, dsg, v - 32768))
        # ---- every char into the targets narrower than 21 bits
        for (w, n) in ((8, 1), (8, 2), (16, 1)):
            for c in range(0, 0x110000, 1):
                if not (0xd800 <= c < 0xe000) and (c < 0x20000 or c % 17 == 0):
                    out.append("from_char %d %d %s" % (w, n, tokZ(c)))
    return out


def exhaustive(tier):
    return tier == "thorough"


RULE = ("every ordered pair of a 13-config grid over all four digit types (8..192 bits incl. 24/40/136-bit widths) x "
        "source signedness x target signedness for BTryFrom, and every config x the 12 primitive integers x source "
        "signedness for TryFrom: MAX, MAX+1, MIN, MIN-1 of the target (both signed and unsigned reading, +-2 around) "
        "inside the source, source MIN/MAX/-1/0, sign digit versus padding digit (one high digit off the padding by "
        "one bit / its top bit / all bits; top bit of the last covered digit), the `Digit::BITS > int::BITS` branch "
        "(low digit with bit pb-1, bits >= pb, sign extensions of pb-bit negatives; rest zero / MAX / mixed), single "
        "bits and sign runs at every digit boundary, boundary-biased random values; primitive -> bnum: the target's "
        "2^T, 2^(T-1), 2^w neighbours and the primitive's MIN/MAX, sign runs at byte boundaries; bool; char incl. "
        "2^T neighbours; digit arrays with distinct digits.  Thorough: all 2^16 sources of (8,2)/(16,1) x both source "
        "signs into every target x both target signs and every primitive; all u8/i8/u16/i16 into every target; all "
        "chars below 2^17 into 8/16-bit targets.  Non-trivial = the answer is not decided by the type widths alone.")


def _zval(tok):
    body = tok[2:]
    return -int(body[1:], 16) if body.startswith("-") else int(body, 16)


def _fits(v, bits, sg):
    return -(1 << (bits - 1)) <= v < (1 << (bits - 1)) if sg else 0 <= v < (1 << bits)


def nontrivial(case, result):
    toks = case.split(" ")
    op, w, n = toks[0], int(toks[1]), int(toks[2])
    if op == "btry_from":
        w2, n2 = _zval(toks[3]), _zval(toks[4])
        ss, dsg = toks[5] == "B:1", toks[6] == "B:1"
        sb, tb = w * n, w2 * n2
        return sb > tb or (ss and not dsg) or (not ss and dsg and sb == tb)
    if op in ("try_to_prim", "try_to_size"):
        tb = 64 if op == "try_to_size" else _zval(toks[3])
        ps, ss = toks[-3] == "B:1", toks[-2] == "B:1"
        sb = w * n
        return sb > tb or (ss and not ps) or (not ss and ps and sb == tb)
    if op in ("conv_prim", "conv_size"):
        b = 64 if op == "conv_size" else _zval(toks[3])
        v = _zval(toks[-1])
        return v < 0 or (v >> (w * n - 1)) != 0 or b > w
    if op == "from_char":
        return _zval(toks[-1]) >> w != 0
    return True


def observable(case, impl, model, dbg):
    """`From<primitive>` into a target that cannot represent the value (From<u64> for a 64-bit BInt with the top bit
    set, From<u128> for BUintD8<1> with a value >= 256, From<i64> for a 16-bit BInt) is the README's documented
    limitation (`From` implemented where `TryFrom` is due): the property is stated for representable values only, so
    a difference there is model drift, not a violation.  (The model reproduces the code on these inputs too — index
    panic / wrapped value — and the drift count is expected to be 0.)  TryFrom<iN> for BUint is NOT exempt: a negative
    value must give Err."""
    toks = case.split(" ")
    op, w, n = toks[0], int(toks[1]), int(toks[2])
    if op in ("conv_prim", "conv_size"):
        ps, dsg = toks[-3] == "B:1", toks[-2] == "B:1"
        v = _zval(toks[-1])
        if ps and not dsg:
            return v < 0 or _fits(v, w * n, False)      # TryFrom: Err for negatives is claimed; too-wide values are not
        return _fits(v, w * n, dsg)
    if op == "from_char":
        return _fits(_zval(toks[-1]), w * n, False)
    return True


def prebuild(root):
    """translator: regenerate coq/Generated/Loops.v from /repo/src (from_uint! is proved equal to the model in Proofs/LoopsTieC13.v)"""
    return run_translator(root, "rs2v_loops.py", "C13") or run_translator(root, "rs2v_conv.py", "C13") or run_translator(root, "rs2v_xcast.py", "C13")

"""C19 — num_traits conversions (FromPrimitive / ToPrimitive / AsPrimitive / NumCast) of BUint and BInt.
Primitive integers travel as Z: tokens (the type is in the operation name), floats as bit patterns."""
import struct
from .common import *
from .ops_c19 import OPS
from .c14 import FMT, enc, raw, int_values, float_values

PROP, BIN, RUNMOD, RUNFN = "C19", "c19", "RunC19", "run_C19"
MODES = [True, False]

UINTS = ["u8", "u16", "u32", "u64", "u128", "usize"]
SINTS = ["i8", "i16", "i32", "i64", "i128", "isize"]
PBITS = {"u8": 8, "u16": 16, "u32": 32, "u64": 64, "u128": 128, "usize": 64,
         "i8": 8, "i16": 16, "i32": 32, "i64": 64, "i128": 128, "isize": 64}
NARROW = [(8, 1), (8, 2), (8, 3), (8, 5), (16, 1)]          # 8, 16, 24, 40 bit targets


def prange(t):
    pb = PBITS[t]
    return (-(1 << (pb - 1)), (1 << (pb - 1)) - 1) if t in SINTS else (0, (1 << pb) - 1)


def trange(bits, signed_):
    return (-(1 << (bits - 1)), (1 << (bits - 1)) - 1) if signed_ else (0, (1 << bits) - 1)


def fbits_of(fmt, x):
    return struct.unpack("<I", struct.pack("<f", x))[0] if fmt == "f32" else struct.unpack("<Q", struct.pack("<d", x))[0]


# ---------------------------------------------------------------- primitive -> bnum

def from_candidates(rng, w, n, t, per):
    """source values of primitive type t aimed at the representability boundary of the (w, n) targets (both
    signednesses) and at every branch of the import loops (fill digit / non-fill digit inside / beyond N,
    final sign check)."""
    bits = w * n
    pb = PBITS[t]
    lo, hi = prange(t)
    c = {0, 1, 2, 3, -1, -2, -3, lo, lo + 1, lo + 2, hi, hi - 1, hi - 2, 127, 128, 255, 256, -128, -129}
    # the target's MAX, MAX+1, MIN, MIN-1 for both signednesses, and the wrapped images one period away
    for b in (bits, bits - 1):
        for s in (1, -1):
            for d in (-2, -1, 0, 1, 2):
                c.add(s * (1 << b) + d)
    c |= {-(1 << bits) + (1 << (bits - 1)), -(1 << bits) + (1 << (bits - 1)) - 1, (1 << bits) + (1 << (bits - 1)),
          -(1 << bits) + 5, (1 << bits) + 5, -(1 << bits) - 5}
    # digit boundaries of the source, in units of the target digit
    for k in range(0, pb // w + 2):
        b = 1 << (k * w)
        c |= {b, b - 1, b + 1, -b, -b - 1, -b + 1, b >> 1, -(b >> 1), -(b >> 1) - 1, (b >> 1) - 1}
    nd = max(1, pb // w)      # digits the loop visits
    mx = (1 << w) - 1
    for _ in range(per):
        # sign-fill above the target with one digit that is not fill (inside / at N / beyond N)
        neg = rng.chance(1, 2) and t in SINTS
        fill = mx if neg else 0
        ds = [fill] * (nd + 1)
        for j in range(min(n, nd)):
            ds[j] = gen_digit(rng, w)
        if rng.chance(1, 2) and n - 1 < len(ds):
            ds[n - 1] = rng.choice([1 << (w - 1), (1 << (w - 1)) - 1, mx, 0, mx - 1, 1])      # sign bit of the target
        r = rng.below(4)
        if r == 0 and nd > n:
            ds[n + rng.below(nd - n)] = rng.choice([fill ^ 1, fill ^ (1 << (w - 1)), gen_digit(rng, w), mx - fill])
        elif r == 1 and nd > n:
            ds[nd - 1] = rng.choice([fill ^ 1, fill ^ (1 << (w - 1)), mx - fill])
        v = from_digits(ds[:nd], w) & ((1 << pb) - 1)
        if neg:
            v -= 1 << pb
        c.add(v)
        # random magnitudes of random length
        k = rng.below(pb) + 1
        v = rng.bits(k)
        c.add(v)
        c.add(-v)
        c.add(-v - 1)
    return sorted(v for v in c if lo <= v <= hi)


# ---------------------------------------------------------------- float -> bnum

def float_candidates(rng, fmt, bits, w, per):
    fb, p, emax = FMT[fmt]
    fm = (1 << (p - 1)) - 1
    out = list(float_values(rng, fmt, bits, per, w))
    # fractions and half-integers, both signs
    for x in (0.5, 0.25, 0.75, 0.999, 0.9999999, 1.0, 1.5, 1.999, 2.5, 127.5, 128.5, 255.5, 256.5, 32767.5, 65535.5, 1e-30,
              254.999, 255.0, 256.0, 127.0, 128.0, 129.0, 1e10, 3.0e38, 16777215.0, 16777216.0, 4294967295.0, 4294967296.0):
        for s in (1.0, -1.0):
            out.append(fbits_of(fmt, s * x))
    # just below 1.0, just above 0.5, smallest normal, largest finite, both signs
    for s in (0, 1):
        out += [enc(fmt, s, -1, fm), enc(fmt, s, -1, 0), enc(fmt, s, -1, 1), enc(fmt, s, 0, 1), enc(fmt, s, -(emax - 2), 0),
                enc(fmt, s, emax - 1, fm), raw(fmt, s, 0, 0), raw(fmt, s, 0, 1), raw(fmt, s, 0, fm),
                raw(fmt, s, 2 * emax - 1, 0), raw(fmt, s, 2 * emax - 1, 1), raw(fmt, s, 2 * emax - 1, fm),
                raw(fmt, s, 2 * emax - 1, 1 << (p - 2)), raw(fmt, s, 2 * emax - 1, rng.bits(p - 1) | 1)]
    # 2^BITS, 2^BITS - ulp, 2^(BITS-1), 2^(BITS-1) - ulp, 2^(BITS-1) + ulp, 2^(BITS-2)..., both signs; mantissas whose bit
    # length decides (mant_bits + exp vs BITS)
    for e in (bits - 2, bits - 1, bits, bits + 1, p - 2, p - 1, p, p + 1, 31, 32, 63, 64):
        if -(emax - 2) <= e <= emax - 1:
            for fr in (0, 1, fm, fm - 1, 1 << (p - 2), rng.bits(p - 1)):
                for s in (0, 1):
                    out.append(enc(fmt, s, e, fr))
    # integers with few significant bits at every position near BITS (the `<< exp` branch with small mantissa width is
    # not reachable: the decoded mantissa always has p bits; the `>> -exp` branch decides by bit length)
    for k in range(max(0, bits - 3), bits + 2):
        if k <= emax - 1:
            for s in (0, 1):
                out.append(enc(fmt, s, k, 0))
                out.append(enc(fmt, s, k, fm))
    return out


# ---------------------------------------------------------------- bnum -> primitive

def to_candidates(rng, w, n, t, per):
    """bnum patterns (mod 2^bits) aimed at the boundary of the primitive type t, as unsigned and as two's
    complement values, plus padding-digit / sign-digit patterns"""
    bits = w * n
    M = 1 << bits
    pb = PBITS[t]
    mx = (1 << w) - 1
    c = {0, 1, 2, M - 1, M - 2, M >> 1, (M >> 1) - 1, (M >> 1) + 1}
    for b in (pb, pb - 1):
        for s in (1, -1):
            for d in (-2, -1, 0, 1, 2):
                c.add((s * (1 << b) + d) % M)
    k = min(n, max(1, -(-pb // w)))       # digits the primitive covers
    for _ in range(per):
        neg = rng.chance(1, 2)
        fill = mx if neg else 0
        ds = [gen_digit(rng, w) for _ in range(k)] + [fill] * (n - k)
        if rng.chance(1, 2):
            # the sign position of the primitive inside the covered digits
            ds[k - 1] = rng.choice([1 << (w - 1), (1 << (w - 1)) - 1, mx, 0, mx - 1, 1])
        r = rng.below(5)
        if r == 0 and n > k:
            ds[k + rng.below(n - k)] = rng.choice([fill ^ 1, fill ^ (1 << (w - 1)), mx - fill, gen_digit(rng, w)])
        elif r == 1 and n > k:
            ds[n - 1] = rng.choice([fill ^ 1, fill ^ (1 << (w - 1)), mx - fill])
        elif r == 2 and pb < w:
            # digit wider than the primitive: the high part of digit 0 is sign fill of the primitive or not
            low = rng.bits(pb)
            ext = rng.choice([0, ((1 << w) - 1) >> pb << pb, rng.bits(w) >> pb << pb, 1 << pb, 1 << (w - 1)])
            ds[0] = (low | ext) & mx
        c.add(from_digits(ds[:n], w) % M)
        c.add(gen_value(rng, w, n))
    return sorted(c)


# ---------------------------------------------------------------- generation

def L(op, w, n, v):
    return "%s %d %d %s" % (op, w, n, tokV(v, w, n))


def Zl(op, w, n, z):
    return "%s %d %d %s" % (op, w, n, tokZ(z))


CHARS = [0, 1, 0x41, 0x7f, 0x80, 0xff, 0x100, 0x7ff, 0x800, 0xd7ff, 0xe000, 0xffff, 0x10000, 0x10ffff, 0x1f600]


def gen(rng, tier):
    thorough = tier == "thorough"
    configs = CONFIGS_ALL if thorough else CONFIGS_QUICK
    out = []
    for (w, n) in configs:
        bits = w * n
        M = 1 << bits
        big = bits > 1100
        narrow = (w, n) in NARROW
        per = (10 if thorough else 4) * (2 if narrow else 1)
        if big:
            per = 2
        for S in ("U", "I"):
            # ---- FromPrimitive (integers) and AsPrimitive<bnum> for primitives
            for t in UINTS + SINTS:
                cs = from_candidates(rng, w, n, t, per)
                for k, v in enumerate(cs):
                    out.append(Zl("%s.from_%s" % (S, t), w, n, v))
                    if k % 3 == 0:
                        out.append(Zl("%s.as_from_%s" % (S, t), w, n, v))
            # ---- FromPrimitive (floats) and AsPrimitive<bnum> for floats
            for fmt in ("f32", "f64"):
                fs = float_candidates(rng, fmt, bits, w, max(2, per // 2))
                if big:
                    fs = fs[::3]
                for k, f in enumerate(fs):
                    out.append(Zl("%s.from_%s" % (S, fmt), w, n, f))
                    if k % 4 == 0:
                        out.append(Zl("%s.as_from_%s" % (S, fmt), w, n, f))
            # ---- ToPrimitive / AsPrimitive<prim> (integers)
            for t in UINTS + SINTS:
                cs = to_candidates(rng, w, n, t, per)
                for k, v in enumerate(cs):
                    out.append(L("%s.to_%s" % (S, t), w, n, v))
                    if k % 3 == 0:
                        out.append(L("%s.as_%s" % (S, t), w, n, v))
            # ---- to_f32 / to_f64 / as_ f32 / f64
            for fmt in ("f32", "f64"):
                ivs = int_values(rng, fmt, bits, max(2, per // 3))
                ivs = ivs[:: (6 if big else 2)]
                for k, v in enumerate(ivs):
                    out.append(L("%s.to_%s" % (S, fmt), w, n, v))
                    if S == "I":
                        out.append(L("%s.to_%s" % (S, fmt), w, n, (M - v) % M))
                    if k % 3 == 0:
                        out.append(L("%s.as_%s" % (S, fmt), w, n, v if S == "U" or k % 2 else (M - v) % M))
            # ---- AsPrimitive between bnum integers, char, bool; NumCast
            vs = boundary_values(w, n) + [gen_value(rng, w, n) for _ in range(per)]
            if big:
                vs = vs[::4]
            for k, v in enumerate(vs):
                for T in ("U", "I"):
                    tgt = ["", "1", "2", "3", "9"][k % 5]
                    out.append(L("%s.as_%s%s" % (S, T, tgt), w, n, v))
            for v in (0, M - 1, M >> 1, (M >> 1) - 1, 1):
                for T in ("U", "I"):
                    for tgt in ("", "1", "2", "3", "9"):
                        out.append(L("%s.as_%s%s" % (S, T, tgt), w, n, v))
            for ch in CHARS:
                out.append(Zl("%s.as_from_char" % S, w, n, ch))
            out.append("%s.as_from_bool %d %d B:0" % (S, w, n))
            out.append("%s.as_from_bool %d %d B:1" % (S, w, n))
            out.append(Zl("%s.numcast_u64" % S, w, n, 0))
            out.append(Zl("%s.numcast_u64" % S, w, n, rng.bits(64)))
            out.append(Zl("%s.numcast_f64" % S, w, n, fbits_of("f64", 1.0)))
    if thorough:
        # every 16-bit pattern for every to_* (and a thinned as_*) at the two 16-bit configurations
        for (w, n) in ((8, 2), (16, 1)):
            for S in ("U", "I"):
                for t in UINTS + SINTS + ["f32", "f64"]:
                    op = "%s.to_%s" % (S, t)
                    op2 = "%s.as_%s" % (S, t)
                    for v in range(65536):
                        out.append(L(op, w, n, v))
                        if v % 16 == 0:
                            out.append(L(op2, w, n, v))
        # every u16 / i16 source value (u8 / i8: every value) for every from_* at 8- and 16-bit targets
        for (w, n) in ((8, 1), (8, 2), (16, 1)):
            for S in ("U", "I"):
                for t in UINTS + SINTS:
                    lo, hi = prange(t)
                    rg = range(max(lo, -32768), min(hi, 32767) + 1) if t in SINTS else range(0, min(hi, 65535) + 1)
                    op = "%s.from_%s" % (S, t)
                    op2 = "%s.as_from_%s" % (S, t)
                    for v in rg:
                        out.append(Zl(op, w, n, v))
                        if v % 16 == 0:
                            out.append(Zl(op2, w, n, v))
        # every f32 exponent and sign x a mantissa grid; every f64 exponent x a small grid, at narrow and wide targets
        fb, p, emax = FMT["f32"]
        fm = (1 << (p - 1)) - 1
        grid = [0, 1, 2, fm, fm - 1, 1 << (p - 2), (1 << (p - 2)) | 1, (1 << (p - 2)) - 1, 0x2AAAAA, 0x555555]
        for (w, n) in ((8, 1), (8, 2), (8, 3), (8, 5), (16, 2), (32, 1), (64, 1), (64, 2), (8, 17), (64, 3)):
            for s in (0, 1):
                for E in range(256):
                    for fr in grid + [rng.bits(p - 1)]:
                        f = raw("f32", s, E, fr)
                        out.append(Zl("U.from_f32", w, n, f))
                        out.append(Zl("I.from_f32", w, n, f))
        fb, p, emax = FMT["f64"]
        fm = (1 << (p - 1)) - 1
        grid = [0, 1, fm, 1 << (p - 2), (1 << (p - 2)) | 1]
        for (w, n) in ((8, 1), (8, 3), (16, 3), (64, 1), (64, 2), (64, 17)):
            for s in (0, 1):
                for E in range(2048):
                    for fr in grid + [rng.bits(p - 1)]:
                        f = raw("f64", s, E, fr)
                        out.append(Zl("U.from_f64", w, n, f))
                        out.append(Zl("I.from_f64", w, n, f))
        # a dense f32 sweep below 2^9 at the 8-bit target: every integer / half-integer boundary
        p = FMT["f32"][1]
        for e in range(-2, 9):
            for k in range(0, 1 << 10):
                fr = k << (p - 1 - 10)
                for s in (0, 1):
                    f = enc("f32", s, e, fr)
                    out.append(Zl("U.from_f32", 8, 1, f))
                    out.append(Zl("I.from_f32", 8, 1, f))
    return out


def exhaustive(tier):
    return tier == "thorough"


RULE = ("per configuration (all of the harness table; 8/16/24/40-bit targets with doubled budgets) x signedness x each of "
        "the 12 primitive integer types: from_*: 0, +-1, the primitive's MIN/MAX, the target's MAX, MAX+1, MIN, MIN-1 for both "
        "signednesses and their images one period away, every digit boundary of the source +-1, sign-fill patterns with one "
        "non-fill digit inside / at / beyond N and every value of the target's sign digit, random magnitudes of every length, "
        "all filtered to the source type; from_f32/f64: +-0, subnormals, +-inf, quiet/signalling NaNs with payloads, 0.5, "
        "0.999.., 1.5, k+-0.5, 2^BITS, 2^BITS-ulp, +-2^(BITS-1), +-2^(BITS-1)-+ulp, exponents around p and BITS with mantissa "
        "0/all-ones/random, random patterns; to_*: the primitive's MAX, MAX+1, MIN, MIN-1 as unsigned and two's complement "
        "patterns, padding digits fill / one bit off / random, the high part of digit 0 when the digit is wider than the "
        "primitive, boundary-biased random values; to_f32/f64 and as_ f32/f64: the C14 rounding grid; AsPrimitive in every "
        "direction (12 integer types, f32, f64, char, bool, bnum of 1/2/3/9/N digits); NumCast (always panics). thorough adds "
        "every 16-bit pattern for every to_* at (8,2) and (16,1), every u16/i16 (u8/i8) source for every from_* at (8,1), "
        "(8,2), (16,1), every f32/f64 exponent x sign x mantissa grid at narrow and wide targets and a dense f32 sweep below "
        "2^9 at (8,1). Non-trivial = the result is None, or the value needs more than half of the narrower side's bits, or "
        "(floats) |f| >= 0.5 / NaN / inf.")


def nontrivial(case, result):
    toks = case.split(" ")
    op = toks[0]
    w, n = int(toks[1]), int(toks[2])
    bits = w * n
    if "numcast" in op or "bool" in op:
        return False
    if result == "None":
        return True
    name = op.split(".", 1)[1]
    arg = toks[3]
    if arg.startswith("Z:"):
        body = arg[2:]
        v = -int(body[1:], 16) if body.startswith("-") else int(body, 16)
        if name.endswith("f32") or name.endswith("f64"):
            fmt = "f32" if name.endswith("f32") else "f64"
            fb, p, emax = FMT[fmt]
            E = (v >> (p - 1)) & (2 * emax - 1)
            return E >= emax - 2
        if name.endswith("char"):
            return v > 255
        t = name.split("_")[-1]
        m = v if v >= 0 else -v - 1
        return m.bit_length() * 2 > min(bits, PBITS.get(t, 64))
    v = from_digits(parse_L(arg), w)
    if op.startswith("I.") and v >> (bits - 1):
        v = (1 << bits) - v - 1
    t = name.split("_")[-1]
    if t in ("f32", "f64"):
        return v.bit_length() > FMT[t][1]
    return v.bit_length() * 2 > min(bits, PBITS.get(t, bits))


def prebuild(root):
    """translator: regenerate coq/Generated/ConvGen.v from /repo/src (the ToPrimitive / FromPrimitive macros are proved equal to the model in Proofs/ConvGenTieC19.v)"""
    return run_translator(root, "rs2v_conv.py", "C19")

"""C08 — powers and integer logarithms."""
from .common import *
from .ops_c08 import OPS

PROP, BIN, RUNMOD, RUNFN = "C08", "c08", "RunC08", "run_C08"
MODES = [True, False]


def iroot(x, k):
    if x < 2:
        return x
    lo, hi = 1, 1 << (x.bit_length() // k + 1)
    while lo < hi:
        mid = (lo + hi + 1) // 2
        if mid ** k <= x:
            lo = mid
        else:
            hi = mid - 1
    return lo


def gen_case(rng, op, w, n):
    bits = w * n
    M = 1 << bits
    name = op.split(".")[1]
    is_signed = op.startswith("I.")
    if "pow" in name:
        r = rng.below(10)
        if r < 4:
            e = rng.choice([2, 3, 4, 5, 7, 8, 9, 16, 17, bits - 1, bits, bits + 1, rng.below(bits) + 1, rng.below(40) + 1])
            e = max(1, e)
            lim = (M >> 1) if is_signed else M
            base = iroot(lim - 1, e) + rng.below(3) - 1
            if is_signed and rng.chance(1, 2):
                # negative bases: -(root of 2^(BITS-1)) hits exactly MIN for odd e
                base = iroot(lim, e) + rng.below(3) - 1
                base = (M - base) % M
            return [base % M, e]
        if r < 6:
            base = rng.choice([0, 1, M - 1, 2, M - 2, 3, 10])
            e = rng.choice([0, 1, 2, 3, bits - 2, bits - 1, bits, bits + 1, (1 << 31), (1 << 32) - 1, (1 << 32) - 2, rng.bits(32)])
            return [base % M, e]
        if r < 8:
            return [gen_value(rng, w, n), rng.choice([0, 1, 2, 3, rng.below(8)])]
        if r == 8:
            k = rng.below(min(bits, 64))
            return [(1 << k) % M, rng.below(2 * bits // (k + 1) + 3)]
        return [gen_value(rng, w, n), rng.bits(rng.below(32) + 1)]
    # logarithms
    if name in ("checked_ilog", "ilog"):
        r = rng.below(10)
        if r < 5:
            base = rng.choice([2, 3, 4, 5, 7, 10, 16, 255, 256, 257, (1 << w) - 1, (1 << w) % M or 2, ((1 << w) + 1) % M or 2, rng.bits(rng.below(min(bits - 1, 70)) + 2) or 2])
            base = base % M
            if base < 2:
                base = 2
            kmax = 0
            while base ** (kmax + 1) < M:
                kmax += 1
            k = rng.below(kmax + 1)
            a = (base ** k + rng.below(3) - 1) % M
            if is_signed and a >> (bits - 1):
                a = a >> 1
            return [a, base]
        if r < 7:
            return [gen_value(rng, w, n), rng.choice([0, 1, 2, M - 1, M >> 1, 3])]
        if r == 7:
            return [rng.choice([0, 1, M - 1, M >> 1]), gen_value(rng, w, n)]
        a, b = gen_pair(rng, w, n)
        return [a, b]
    # ilog2 / ilog10
    r = rng.below(6)
    if r < 3:
        base = 10 if "10" in name else 2
        kmax = 0
        while base ** (kmax + 1) < M:
            kmax += 1
        k = rng.below(kmax + 1)
        return [(base ** k + rng.below(3) - 1) % M]
    if r == 3:
        return [rng.choice([0, 1, 9, 10, 11, 99, 100, M - 1, M >> 1, (M >> 1) - 1])]
    return [gen_value(rng, w, n)]


def gen_iilog(rng, w, n):
    """iilog(m, b, k) as its callers use it: b = beta^m >= 2, k >= 1, b * k representable"""
    bits = w * n
    M = 1 << bits
    beta = rng.choice([2, 3, 10, 16, 255, rng.bits(rng.below(min(bits // 2, 40)) + 2) or 2])
    if beta < 2:
        beta = 2
    m = rng.choice([1, 1, 2, 4])
    b = beta ** m
    if b * b >= M:
        b, m = beta, 1
    if b >= M:
        b, m = 2, 1
    kmax = max(1, (M - 1) // b)
    k = rng.choice([1, b - 1, b, b + 1, b * b % kmax or 1, rng.below(kmax) + 1, kmax]) % (kmax + 1) or 1
    return [m, b, k]


def gen(rng, tier):
    thorough = tier == "thorough"
    configs = CONFIGS_ALL if thorough else CONFIGS_QUICK
    per = 300 if thorough else 40
    out = []
    for op, sig in OPS.items():
        if op == "U.int.iilog":
            for (w, n) in configs:
                for _ in range(per if w * n <= 1100 else 2):
                    out.append(fmt_line(op, w, n, gen_iilog(rng, w, n), sig))
            continue
        for (w, n) in configs:
            k = per if w * n <= 1100 else max(2, per // 50)
            for _ in range(k):
                out.append(fmt_line(op, w, n, gen_case(rng, op, w, n), sig))
    # logarithms: EVERY power b^k that fits (and its neighbours) for the bases 2 and 10 - and, for the general ilog, a few
    # fixed bases - at every configuration up to 1100 bits (an estimate-based shortcut is wrong only at particular k)
    for (w, n) in configs:
        bits = w * n
        if bits > 1100 and not thorough:
            continue
        M = 1 << bits
        stepk = 1 if bits <= 1100 else 37
        for S in ("U", "I"):
            lim = (M >> 1) if S == "I" else M
            for base, ops1 in ((10, ("checked_ilog10", "ilog10")), (2, ("checked_ilog2", "ilog2"))):
                k, pw = 0, 1
                while pw < lim:
                    if k % stepk == 0:
                        for v in (pw, pw - 1, pw + 1):
                            if 0 < v < lim:
                                out.append(fmt_line("%s.%s" % (S, ops1[0]), w, n, [v], "L"))
                        if pw < lim:
                            out.append(fmt_line("%s.%s" % (S, ops1[1]), w, n, [pw], "L"))
                    k += 1
                    pw *= base
            for base in (3, 7, 10, 255, 256, 65537):
                if base >= lim:
                    continue
                k, pw = 0, 1
                while pw < lim:
                    if k % (stepk * (3 if bits > 200 else 1)) == 0:
                        for v in (pw, pw - 1):
                            if 0 < v < lim:
                                out.append(fmt_line("%s.checked_ilog" % S, w, n, [v, base], "LL"))
                    k += 1
                    pw *= base
    if thorough:
        for op, sig in OPS.items():
            if op == "U.int.iilog":
                continue
            if sig == "LZ":
                for a in range(256):
                    for e in list(range(0, 20)) + [255, 256, 257, (1 << 32) - 1]:
                        out.append(fmt_line(op, 8, 1, [a, e], sig))
            elif sig == "L":
                for a in range(65536):
                    out.append(fmt_line(op, 8, 2, [a], sig))
            else:
                for a in range(256):
                    for b in range(256):
                        out.append(fmt_line(op, 8, 1, [a, b], sig))
    return out


def exhaustive(tier):
    return tier == "thorough"


RULE = ("pow: bases floor(M^(1/e)) + {-1,0,1} for e from {2..17, BITS-1, BITS, BITS+1, random}, negative bases hitting "
        "exactly MIN, bases 0/+-1/2/-2 with exponents up to u32::MAX, powers of two, random; logs: arguments b^k + {-1,0,1} "
        "for every k that fits and bases 2,3,..,2^w-1,2^w,2^w+1 and random multi-digit bases, invalid bases 0/1/negative, "
        "zero/negative arguments; thorough adds 8-bit exhaustive bases x exponents 0..19 and all 16-bit log arguments. "
        "Non-trivial = exponent >= 2 with |base| >= 2, or a log argument >= base^2, or None/Panic/flag.")


def nontrivial(case, result):
    if "B:1" in result or "None" in result or "Panic" in result:
        return True
    toks = case.split(" ")
    w = int(toks[1])
    if toks[0] == "U.int.iilog":
        return True
    if "pow" in toks[0]:
        a = from_digits(parse_L(toks[3]), w)
        return int(toks[4][2:], 16) >= 2 and a >= 2
    if result.startswith("Z:") or result.startswith("Some(Z:"):
        v = int(result.replace("Some(", "").rstrip(")")[2:], 16)
        return v >= 2
    return False


def prebuild(root):
    """translators: coq/Generated/Glue.v (Proofs/GlueTieC08.v) and coq/Generated/Loops.v (pow / ilog loops, Proofs/LoopsTieC08*.v),
    each proved equal to the hand-written model"""
    return run_translator(root, "rs2v_glue.py", "C08") or run_translator(root, "rs2v_loops.py", "C08")

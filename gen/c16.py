"""C16 — results depend only on width, signedness and value (never on the digit type); extension commutes
with value-level operations; the associated constants and the aliases denote what their names advertise.

Besides the usual implementation-vs-model comparison, this module relates implementation results to EACH OTHER
(cross_check): the same operation on the same value in every digit type of equal width, narrow vs extended
operands in a wider type, constants vs the value their name advertises."""
import re, os, subprocess, sys
from .common import *
from .ops_c16 import OPS

PROP, BIN, RUNMOD, RUNFN = "C16", "c16", "RunC16", "run_C16"
MODES = [True, False]
IMPL_ONLY = {"U.to_dec", "I.to_dec", "U.from_dec", "I.from_dec", "U.display", "I.display"}

EQW = {16: [(8, 2), (16, 1)], 32: [(8, 4), (16, 2), (32, 1)], 64: [(8, 8), (16, 4), (32, 2), (64, 1)],
       96: [(8, 12), (16, 6), (32, 3)], 128: [(8, 16), (16, 8), (32, 4), (64, 2)]}
ALL = [c for g in EQW.values() for c in g]
CONST_NAMES = {"ZERO": 0, "MIN": 0, "ONE": 1, "TWO": 2, "THREE": 3, "FOUR": 4, "FIVE": 5, "SIX": 6, "SEVEN": 7, "EIGHT": 8, "NINE": 9,
               "TEN": 10, "NEG_ONE": -1, "NEG_TWO": -2, "NEG_THREE": -3, "NEG_FOUR": -4, "NEG_FIVE": -5, "NEG_SIX": -6,
               "NEG_SEVEN": -7, "NEG_EIGHT": -8, "NEG_NINE": -9, "NEG_TEN": -10}
ALIASES = [128, 256, 512, 1024, 2048, 4096, 8192]
GROUPS = []     # filled by gen(): (kind, [case indices], extra)


def prebuild(root):
    """translator: regenerate coq/Generated/Config.v from the current source"""
    p = subprocess.run([sys.executable, os.path.join(root, "tools", "rs2v_config.py")], stdout=subprocess.PIPE, stderr=subprocess.STDOUT)
    return None if p.returncode == 0 else p.stdout.decode("utf-8", "replace")[-500:]


def gen_z(rng, op, bits):
    name = op.split(".")[1]
    if "pow" in name:
        return rng.choice([0, 1, 2, 3, 4, 5, 7, rng.below(bits + 2)])
    if name == "bit":
        return rng.below(bits)
    return rng.choice([rng.below(bits), bits - 1, bits, bits + 1, rng.below(2 * bits + 2), 0, 1])


def values_for(rng, op, sig, bits):
    w, n = rng.choice(EQW[bits])
    nl = sig.count("L")
    if nl >= 2:
        a, b = gen_pair(rng, w, n)
        ls = [a, b] + [gen_value(rng, w, n) for _ in range(nl - 2)]
        name = op.split(".")[1]
        if ("div" in name or "rem" in name or "ilog" in name or "multiple" in name) and rng.chance(1, 2):
            ls[1] = rng.bits(rng.below(bits) + 1) or 1
        if "mul" in name and rng.chance(1, 2):
            ls = [rng.bits(rng.below(bits // 2 + 2) + 1), rng.bits(rng.below(bits // 2 + 2) + 1)]
    else:
        ls = [gen_value(rng, w, n) for _ in range(nl)]
    vals = []
    li = 0
    for c in sig:
        if c == "L":
            vals.append(ls[li])
            li += 1
        elif c == "Z":
            vals.append(gen_z(rng, op, bits))
        elif c == "B":
            vals.append(rng.chance(1, 2))
    return vals


def ext(v, signed_op, bits, bits2):
    if signed_op and v >> (bits - 1):
        return v + (1 << bits2) - (1 << bits)
    return v


EXT_OPS = {"checked_add": "LL", "checked_sub": "LL", "checked_mul": "LL", "checked_div": "LL", "checked_rem": "LL",
           "checked_pow": "LZ", "checked_shl": "LZ", "cmp": "LL"}


def gen(rng, tier):
    thorough = tier == "thorough"
    per = 40 if thorough else 5
    out = []
    del GROUPS[:]
    skip = IMPL_ONLY | {"U.const", "I.const", "alias.bits"}
    # 1. digit-type independence: same op, same value, every digit type of the same width
    for op, sig in OPS.items():
        if op in skip:
            continue
        for bits, group in EQW.items():
            for _ in range(per if sig else 1):
                vals = values_for(rng, op, sig, bits)
                idxs = []
                for (w, n) in group:
                    idxs.append(len(out))
                    out.append(fmt_line(op, w, n, vals, sig))
                GROUPS.append(("eqw", idxs, None))
    for S in ("U", "I"):
        for bits, group in EQW.items():
            for _ in range(per * 3):
                w0, n0 = rng.choice(group)
                v = gen_value(rng, w0, n0)
                for op in (S + ".to_dec", S + ".display"):
                    idxs = []
                    for (w, n) in group:
                        idxs.append(len(out))
                        out.append(fmt_line(op, w, n, [v], "L"))
                    GROUPS.append(("eqw", idxs, None))
    # 2. extension commutes (narrow, wide) for ops whose exact result is representable in the narrow type
    pairs = []
    for bits, group in EQW.items():
        for bits2, group2 in EQW.items():
            if bits2 > bits:
                for c1 in group:
                    for c2 in group2:
                        pairs.append((c1, c2))
    for S in ("U", "I"):
        sg = S == "I"
        for name, sig in EXT_OPS.items():
            op = S + "." + name
            for _ in range((per * 12) if thorough else 40):
                (w1, n1), (w2, n2) = rng.choice(pairs)
                b1, b2 = w1 * n1, w2 * n2
                vals = values_for(rng, op, sig, b1)
                if name in ("checked_mul", "checked_pow") or rng.chance(1, 3):
                    # small magnitudes so that the exact result is representable reasonably often
                    k = max(2, b1 // (3 if name == "checked_pow" else 2))
                    vals[0] = rng.bits(rng.below(k) + 1)
                    if sig[1] == "L":
                        vals[1] = rng.bits(rng.below(k) + 1) or 1
                    if sg and rng.chance(1, 2):
                        vals[0] = ((1 << b1) - vals[0]) % (1 << b1)
                    if sg and sig[1] == "L" and rng.chance(1, 2):
                        vals[1] = ((1 << b1) - vals[1]) % (1 << b1)
                if name == "checked_shl":
                    vals[1] = rng.below(b1)
                if name == "checked_pow":
                    vals[1] = rng.below(6)
                i1 = len(out)
                out.append(fmt_line(op, w1, n1, vals, sig))
                wide = [ext(v, sg, b1, b2) if c == "L" else v for v, c in zip(vals, sig)]
                out.append(fmt_line(op, w2, n2, wide, sig))
                GROUPS.append(("ext", [i1, i1 + 1], name))
        # decimal printing and parsing
        for _ in range((per * 12) if thorough else 40):
            (w1, n1), (w2, n2) = rng.choice(pairs)
            b1, b2 = w1 * n1, w2 * n2
            v = gen_value(rng, w1, n1)
            i1 = len(out)
            out.append(fmt_line(S + ".to_dec", w1, n1, [v], "L"))
            out.append(fmt_line(S + ".to_dec", w2, n2, [ext(v, sg, b1, b2)], "L"))
            GROUPS.append(("ext", [i1, i1 + 1], "to_dec"))
            val = signed(v, b1) if sg else v
            s = str(val)
            if rng.chance(1, 4):
                s = ("+" if val >= 0 else "-") + "000" + str(abs(val))
            i1 = len(out)
            out.append(fmt_line(S + ".from_dec", w1, n1, [list(s.encode())], "R"))
            out.append(fmt_line(S + ".from_dec", w2, n2, [list(s.encode())], "R"))
            GROUPS.append(("ext", [i1, i1 + 1], "from_dec"))
    # 3. constants and aliases, at every configuration of the table
    for (w, n) in ALL:
        for name in CONST_NAMES:
            if not name.startswith("NEG") and name != "MIN" or name == "MIN":
                if name != "MIN" or True:
                    GROUPS.append(("const", [len(out)], ("U", name)))
                    out.append(fmt_line("U.const", w, n, [list(name.encode())], "R"))
            if name != "MIN":
                GROUPS.append(("const", [len(out)], ("I", name)))
                out.append(fmt_line("I.const", w, n, [list(name.encode())], "R"))
        for op in ("U.MAX", "U.MIN", "I.MAX", "I.MIN", "U.BITS", "U.BYTES", "I.BITS", "I.BYTES"):
            GROUPS.append(("const", [len(out)], tuple(op.split("."))))
            out.append(fmt_line(op, w, n, [], ""))
    for b in ALIASES + [64, 192, 129]:
        GROUPS.append(("alias", [len(out)], b))
        out.append(fmt_line("alias.bits", 64, 1, [b], "Z"))
    return out


LTOK = re.compile(r"L:([0-9a-f,]*)")


def by_value(result, w):
    """replace every digit-list token by the integer it denotes"""
    return LTOK.sub(lambda m: "V:%x" % from_digits([int(x, 16) for x in m.group(1).split(",") if x], w), result)


def exact_of(name, a, b):
    try:
        if name == "checked_add":
            return a + b
        if name == "checked_sub":
            return a - b
        if name == "checked_mul":
            return a * b
        if name == "checked_div":
            return None if b == 0 else (abs(a) // abs(b)) * (1 if (a < 0) == (b < 0) else -1)
        if name == "checked_rem":
            return None if b == 0 else (abs(a) % abs(b)) * (-1 if a < 0 else 1)
        if name == "checked_pow":
            return a ** b
        if name == "checked_shl":
            return a << b
    except Exception:
        return None
    return None


def cross_check(cases, impl, dbg):
    bad = []
    for kind, idxs, extra in GROUPS:
        toks = [cases[i].split(" ") for i in idxs]
        res = [impl[i] for i in idxs]
        if kind == "eqw":
            op = toks[0][0]
            if op in IMPL_ONLY:
                vals = res                     # strings: compare verbatim
            else:
                vals = [by_value(r, int(t[1])) for r, t in zip(res, toks)]
            if len(set(vals)) != 1:
                bad.append(("the same operation on the same value gives different results in digit types of equal width: %s" % vals, idxs))
        elif kind == "ext":
            (t1, t2), (r1, r2) = toks, res
            S = t1[0][0]
            w1, n1, w2, n2 = int(t1[1]), int(t1[2]), int(t2[1]), int(t2[2])
            b1, b2 = w1 * n1, w2 * n2
            sg = S == "I"

            def val(tok, w, bits):
                v = from_digits(parse_L(tok), w)
                return signed(v, bits) if sg else v

            def resval(r, w, bits):
                m = re.match(r"Some\(L:([0-9a-f,]*)\)$", r)
                if not m:
                    return None
                v = from_digits([int(x, 16) for x in m.group(1).split(",")], w)
                return signed(v, bits) if sg else v
            if extra == "cmp" or extra == "to_dec":
                if r1 != r2:
                    bad.append(("extension does not commute with %s: narrow %s, wide %s" % (extra, r1, r2), idxs))
            elif extra == "from_dec":
                v1 = resval(r1, w1, b1)
                if v1 is not None and resval(r2, w2, b2) != v1:
                    bad.append(("decimal parsing differs between a narrow and a wide type: %s vs %s" % (r1, r2), idxs))
            else:
                a = val(t1[3], w1, b1)
                b = val(t1[4], w1, b1) if t1[4].startswith("L:") else int(t1[4][2:], 16)
                ex = exact_of(extra, a, b)
                lo, hi = (-(1 << (b1 - 1)), (1 << (b1 - 1)) - 1) if sg else (0, (1 << b1) - 1)
                if ex is not None and lo <= ex <= hi:
                    if resval(r1, w1, b1) != ex or resval(r2, w2, b2) != ex:
                        bad.append(("%s: exact result %d is representable in the narrow type but narrow gives %s and wide gives %s"
                                    % (extra, ex, r1, r2), idxs))
        elif kind == "const":
            t, r = toks[0], res[0]
            w, n = int(t[1]), int(t[2])
            bits = w * n
            S, name = extra
            if t[0].endswith(".const"):
                want = CONST_NAMES[name] % (1 << bits)
                exp = "Some(" + tokV(want, w, n) + ")"
            elif name == "MAX":
                exp = tokV(((1 << bits) - 1) if S == "U" else ((1 << (bits - 1)) - 1), w, n)
            elif name == "MIN":
                exp = tokV(0 if S == "U" else (1 << (bits - 1)), w, n)
            elif name == "BITS":
                exp = "Z:%x" % bits
            else:
                exp = "Z:%x" % (bits // 8)
            if r != exp:
                bad.append(("constant %s::%s at %d bits is %s, its name advertises %s" % (S, name, bits, r, exp), idxs))
        elif kind == "alias":
            b = extra
            exp = "Some((Z:%x Z:%x))" % (b, b) if b in ALIASES else "None"
            if res[0] != exp:
                bad.append(("alias U%d/I%d has BITS %s" % (b, b, res[0]), idxs))
    return bad


RULE = ("(1) every op of a representative table x widths 16/32/64/96/128 x the same operand VALUES encoded in every digit "
        "type that can build the width (2-4 configurations), results compared with each other by value and with the model; "
        "(2) (narrow, wide) configuration pairs across digit types: checked add/sub/mul/div/rem/pow/shl, cmp, decimal print "
        "and parse on zero-/sign-extended operands, required to give the exact result whenever it is representable in the "
        "narrow type; (3) every named constant, MIN/MAX/BITS/BYTES at 16 configurations and every alias, against the value "
        "its name advertises and against the tables regenerated from the source. Non-trivial = a case in a group of >= 2 "
        "configurations, or a constant.")


def nontrivial(case, result):
    return True

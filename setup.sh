#!/bin/sh
# One-time build after a fresh restore (offline): whole Coq development (full .vo build),
# all harness binaries in both build modes.  Every ./check rebuilds incrementally afterwards.
set -e
cd "$(dirname "$0")"
export CARGO_NET_OFFLINE=true
mkdir -p .cache evidence
# translators: regenerate the model parts derived from /repo's source
python3 tools/rs2v_config.py || true
python3 tools/rs2v_digit.py || true
python3 tools/rs2v_glue.py || true
python3 tools/rs2v_loops.py || true
python3 tools/rs2v_div.py || true
python3 tools/rs2v_endian.py || true
python3 tools/rs2v_conv.py || true
python3 tools/rs2v_parse.py || true
python3 tools/rs2v_float.py || true
( cd coq && coq_makefile -f _CoqProject -o Makefile >/dev/null && timeout 7200 make -j16 >/dev/null 2>.cache-make.err || { tail -50 .cache-make.err; echo "coq build reported errors (checks will report per property)"; } ; rm -f .cache-make.err )
for prof in dbgon dbgoff; do
  ( cd harness && CARGO_TARGET_DIR=../.cache/target-$prof RUSTFLAGS="--cfg bnum_verif -Awarnings" timeout 7200 cargo build --offline --quiet --profile $prof --bins ) &
done
wait
echo setup done

(* runner_body.ml — generic driver for an extracted model table.
   The build prepends two lines:   module M = Ex_Cxx   let run = M.run_Cxx
   Protocol (one case per input line, one result per output line):
     <op> <w> <n> <arg>...      arg ::= L:<hex>,<hex>,... | Z:[-]<hex> | B:0 | B:1
   Result syntax: Z:.. | L:.. | B:. | None | Some(v) | (v v) | Panic | Err:k | Unit | BAD
   The build mode (cfg(debug_assertions)) is the command-line argument 0/1.
   Hand-written; trusted for the volume differential only. *)

let rec pos_of_bits (acc : M.positive) (bits : bool list) : M.positive =
  match bits with
  | [] -> acc
  | b :: r -> pos_of_bits (if b then M.XI acc else M.XO acc) r

let hexval c =
  match c with
  | '0' .. '9' -> Char.code c - 48
  | 'a' .. 'f' -> Char.code c - 87
  | 'A' .. 'F' -> Char.code c - 55
  | _ -> failwith "bad hex"

(* non-negative hex string -> z *)
let z_of_hex (s : Stdlib.String.t) : M.z =
  let bits = ref [] in
  Stdlib.String.iter
    (fun c ->
      let v = hexval c in
      bits := (v land 1 <> 0) :: (v land 2 <> 0) :: (v land 4 <> 0) :: (v land 8 <> 0) :: !bits)
    s;
  (* !bits is least-significant first; we need most significant first, skipping leading zeros *)
  let msb_first = List.rev !bits in
  let rec strip l = match l with false :: r -> strip r | _ -> l in
  match strip msb_first with
  | [] -> M.Z0
  | _ :: r -> M.Zpos (pos_of_bits M.XH r)

let z_of_tok (s : Stdlib.String.t) : M.z =
  if Stdlib.String.length s > 0 && s.[0] = '-' then
    match z_of_hex (Stdlib.String.sub s 1 (Stdlib.String.length s - 1)) with
    | M.Zpos p -> M.Zneg p
    | z -> z
  else z_of_hex s

(* positive -> list of bits, least significant first *)
let rec bits_of_pos (p : M.positive) : bool list =
  match p with
  | M.XH -> [ true ]
  | M.XO q -> false :: bits_of_pos q
  | M.XI q -> true :: bits_of_pos q

let hex_of_pos (p : M.positive) : Stdlib.String.t =
  let bits = Array.of_list (bits_of_pos p) in
  let n = Array.length bits in
  let nd = (n + 3) / 4 in
  let b = Buffer.create nd in
  for i = nd - 1 downto 0 do
    let v = ref 0 in
    for k = 3 downto 0 do
      let idx = (4 * i) + k in
      v := (!v * 2) + if idx < n && bits.(idx) then 1 else 0
    done;
    Buffer.add_char b "0123456789abcdef".[!v]
  done;
  Buffer.contents b

let hex_of_z (z : M.z) : Stdlib.String.t =
  match z with
  | M.Z0 -> "0"
  | M.Zpos p -> hex_of_pos p
  | M.Zneg p -> "-" ^ hex_of_pos p

let rec nat_of_int (i : int) : M.nat = if i <= 0 then M.O else M.S (nat_of_int (i - 1))

let coq_string (s : Stdlib.String.t) : M.string =
  let r = ref M.EmptyString in
  for i = Stdlib.String.length s - 1 downto 0 do
    let c = Char.code s.[i] in
    let b k = c land (1 lsl k) <> 0 in
    r := M.String (M.Ascii (b 0, b 1, b 2, b 3, b 4, b 5, b 6, b 7), !r)
  done;
  !r

let parse_arg (t : Stdlib.String.t) : M.val0 =
  let body = Stdlib.String.sub t 2 (Stdlib.String.length t - 2) in
  match t.[0] with
  | 'L' ->
      if body = "" then M.VL []
      else M.VL (List.map z_of_tok (Stdlib.String.split_on_char ',' body))
  | 'Z' -> M.VZ (z_of_tok body)
  | 'B' -> M.VB (body = "1")
  | _ -> failwith ("bad arg " ^ t)

let rec show (b : Buffer.t) (v : M.val0) : unit =
  match v with
  | M.VZ z -> Buffer.add_string b "Z:"; Buffer.add_string b (hex_of_z z)
  | M.VL l ->
      Buffer.add_string b "L:";
      List.iteri (fun i z -> if i > 0 then Buffer.add_char b ','; Buffer.add_string b (hex_of_z z)) l
  | M.VB x -> Buffer.add_string b (if x then "B:1" else "B:0")
  | M.VNone -> Buffer.add_string b "None"
  | M.VSome x -> Buffer.add_string b "Some("; show b x; Buffer.add_char b ')'
  | M.VPair (x, y) -> Buffer.add_char b '('; show b x; Buffer.add_char b ' '; show b y; Buffer.add_char b ')'
  | M.VPanic -> Buffer.add_string b "Panic"
  | M.VErr k -> Buffer.add_string b "Err:"; Buffer.add_string b (hex_of_z k)
  | M.VUnit -> Buffer.add_string b "Unit"
  | M.VBad -> Buffer.add_string b "BAD"

let () =
  let dbg = Array.length Sys.argv > 1 && Sys.argv.(1) = "1" in
  let out = Buffer.create 65536 in
  (try
     while true do
       let line = input_line stdin in
       if line <> "" then begin
         (match Stdlib.String.split_on_char ' ' line with
          | op :: w :: n :: args ->
              let args = List.filter (fun s -> s <> "") args in
              let v =
                try run (coq_string op) (z_of_hex (Printf.sprintf "%x" (int_of_string w)))
                      (nat_of_int (int_of_string n)) dbg (List.map parse_arg args)
                with Stack_overflow -> M.VBad
              in
              show out v
          | _ -> Buffer.add_string out "BAD");
         Buffer.add_char out '\n';
         if Buffer.length out > 60000 then begin
           print_string (Buffer.contents out); Buffer.clear out
         end
       end
     done
   with End_of_file -> ());
  print_string (Buffer.contents out)
